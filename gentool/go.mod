module gentool

go 1.22.1

require (
	github.com/relab/gorums v0.0.0
	google.golang.org/protobuf v1.33.0
)

require (
	github.com/golang/protobuf v1.5.4 // indirect
	golang.org/x/net v0.22.0 // indirect
	golang.org/x/sync v0.6.0 // indirect
	golang.org/x/sys v0.18.0 // indirect
	golang.org/x/text v0.14.0 // indirect
	google.golang.org/genproto/googleapis/rpc v0.0.0-20240318140521-94a12d6c2237 // indirect
	google.golang.org/grpc v1.62.1 // indirect
)

replace github.com/relab/gorums => /repo
