// gentool links the repository's generated packages (which register their file
// descriptors) and serves two purposes for the C17/C16 checks of gvc:
//
//	gentool table [renamed]             binding table (JSON) of every gorums service registered
//	gentool regen PLUGIN PARAM TARGET OUTDIR [renamed]  run the freshly built plugin on a CodeGeneratorRequest
//	                                    assembled from the embedded descriptors (no protoc needed)
//
// "renamed": every method is renamed in memory to its lower_snake_case spelling (QuorumCall ->
// quorum_call) and the file's proto package is dropped (pkg.Svc.m -> Svc.m). The generated Go identifiers stay the same (protoc-gen-go camel-cases them back),
// but the wire name of the method now differs from every Go identifier, so a stub or a server
// registration that derives the wire name from a Go name no longer agrees with the descriptor.
//
//	gentool mutate PLUGIN PARAM TARGET METHOD OPT...  same, with extra boolean method options set in memory
package main

import (
	"bytes"
	"encoding/json"
	"fmt"
	"os"
	"os/exec"
	"path/filepath"
	"sort"
	"strings"

	"github.com/relab/gorums"
	_ "github.com/relab/gorums/benchmark"
	_ "github.com/relab/gorums/cmd/protoc-gen-gorums/dev"
	"github.com/relab/gorums/ordering"
	_ "github.com/relab/gorums/tests/config"
	_ "github.com/relab/gorums/tests/correctable"
	_ "github.com/relab/gorums/tests/dummy"
	_ "github.com/relab/gorums/tests/metadata"
	_ "github.com/relab/gorums/tests/oneway"
	_ "github.com/relab/gorums/tests/ordering"
	_ "github.com/relab/gorums/tests/qf"
	_ "github.com/relab/gorums/tests/tls"
	_ "github.com/relab/gorums/tests/unresponsive"
	"google.golang.org/protobuf/proto"
	"google.golang.org/protobuf/reflect/protodesc"
	"google.golang.org/protobuf/reflect/protoreflect"
	"google.golang.org/protobuf/reflect/protoregistry"
	"google.golang.org/protobuf/types/descriptorpb"
	"google.golang.org/protobuf/types/known/emptypb"
	"google.golang.org/protobuf/types/pluginpb"
)

type Method struct {
	Name             string `json:"name"`
	GoName           string `json:"go_name"`
	FullName         string `json:"full_name"`
	Input            string `json:"input"`
	Output           string `json:"output"`
	CallType         string `json:"call_type"`
	Async            bool   `json:"async"`
	PerNode          bool   `json:"per_node"`
	CustomReturnType string `json:"custom_return_type"`
	ClientStream     bool   `json:"client_stream"`
	ServerStream     bool   `json:"server_stream"`
}

type Service struct {
	File      string   `json:"file"`
	GoPackage string   `json:"go_package"`
	Service   string   `json:"service"`
	Methods   []Method `json:"methods"`
}

func boolOpt(m protoreflect.MethodDescriptor, ext protoreflect.ExtensionType) bool {
	o, ok := m.Options().(*descriptorpb.MethodOptions)
	if !ok || o == nil {
		return false
	}
	v, _ := proto.GetExtension(o, ext).(bool)
	return v
}

// explicitOff spells per_node_arg out as "= false" for the synthetic methods named ...PerNodeOff.
func explicitOff(name string, o *descriptorpb.MethodOptions) {
	if strings.HasSuffix(name, "PerNodeOff") {
		proto.SetExtension(o, gorums.E_PerNodeArg, false)
	}
}

// snake spells a CamelCase method name in lower_snake_case; camel is protoc-gen-go's inverse.
func snake(s string) string {
	var b []byte
	for i := 0; i < len(s); i++ {
		c := s[i]
		if c >= 'A' && c <= 'Z' {
			if i > 0 {
				b = append(b, '_')
			}
			c += 'a' - 'A'
		}
		b = append(b, c)
	}
	return string(b)
}

func camel(s string) string {
	var b []byte
	up := true
	for i := 0; i < len(s); i++ {
		c := s[i]
		switch {
		case c == '_' && i+1 < len(s) && s[i+1] >= 'a' && s[i+1] <= 'z':
			up = true
		case up && c >= 'a' && c <= 'z':
			b = append(b, c-('a'-'A'))
			up = false
		default:
			b = append(b, c)
			up = false
		}
	}
	return string(b)
}

// stripPackage removes the file's proto package (full names lose their "pkg." prefix): generated Go
// identifiers do not depend on it, wire names of methods do.
func stripPackage(p *descriptorpb.FileDescriptorProto) {
	pkg := p.GetPackage()
	if pkg == "" {
		return
	}
	prefix := "." + pkg + "."
	fix := func(t *string) *string {
		if t != nil && strings.HasPrefix(*t, prefix) {
			return proto.String("." + strings.TrimPrefix(*t, prefix))
		}
		return t
	}
	var msgs func(ms []*descriptorpb.DescriptorProto)
	msgs = func(ms []*descriptorpb.DescriptorProto) {
		for _, m := range ms {
			for _, f := range m.Field {
				f.TypeName = fix(f.TypeName)
				f.Extendee = fix(f.Extendee)
			}
			for _, f := range m.Extension {
				f.TypeName = fix(f.TypeName)
				f.Extendee = fix(f.Extendee)
			}
			msgs(m.NestedType)
		}
	}
	msgs(p.MessageType)
	for _, f := range p.Extension {
		f.TypeName = fix(f.TypeName)
		f.Extendee = fix(f.Extendee)
	}
	for _, s := range p.Service {
		for _, m := range s.Method {
			m.InputType = fix(m.InputType)
			m.OutputType = fix(m.OutputType)
		}
	}
	p.Package = nil
}

// renameMethods renames every method whose Go identifier survives the round trip, and drops the
// proto package.
func renameMethods(p *descriptorpb.FileDescriptorProto) {
	defer stripPackage(p)
	for _, s := range p.Service {
		for _, m := range s.Method {
			if n := snake(m.GetName()); camel(n) == m.GetName() {
				m.Name = proto.String(n)
			}
		}
	}
}

func table(renamed bool) []Service {
	var out []Service
	protoregistry.GlobalFiles.RangeFiles(func(fd protoreflect.FileDescriptor) bool {
		gp := ""
		if o, ok := fd.Options().(*descriptorpb.FileOptions); ok && o != nil {
			gp = o.GetGoPackage()
		}
		if !(strings.HasPrefix(gp, "github.com/relab/gorums") || strings.HasPrefix(gp, "cmd/protoc-gen-gorums")) || fd.Services().Len() == 0 || fd.Path() == "ordering/ordering.proto" {
			return true
		}
		if strings.HasPrefix(gp, "cmd/") {
			gp = "github.com/relab/gorums/" + gp
		}
		if renamed {
			p := protodesc.ToFileDescriptorProto(fd)
			renameMethods(p)
			nfd, err := protodesc.NewFile(p, protoregistry.GlobalFiles)
			if err != nil {
				fmt.Fprintln(os.Stderr, "renamed descriptor:", err)
				os.Exit(2)
			}
			fd = nfd
		}
		for i := 0; i < fd.Services().Len(); i++ {
			sd := fd.Services().Get(i)
			s := Service{File: fd.Path(), GoPackage: gp, Service: string(sd.Name())}
			for j := 0; j < sd.Methods().Len(); j++ {
				md := sd.Methods().Get(j)
				m := Method{Name: string(md.Name()), GoName: camel(string(md.Name())), FullName: string(md.FullName()), Input: string(md.Input().Name()), Output: string(md.Output().Name()),
					ClientStream: md.IsStreamingClient(), ServerStream: md.IsStreamingServer()}
				switch {
				case boolOpt(md, gorums.E_Quorumcall):
					m.CallType = "quorumcall"
				case boolOpt(md, gorums.E_Correctable):
					m.CallType = "correctable"
				case boolOpt(md, gorums.E_Multicast):
					m.CallType = "multicast"
				case boolOpt(md, gorums.E_Unicast):
					m.CallType = "unicast"
				default:
					m.CallType = "rpc"
				}
				m.Async = boolOpt(md, gorums.E_Async)
				m.PerNode = boolOpt(md, gorums.E_PerNodeArg)
				if o, ok := md.Options().(*descriptorpb.MethodOptions); ok && o != nil {
					m.CustomReturnType, _ = proto.GetExtension(o, gorums.E_CustomReturnType).(string)
				}
				s.Methods = append(s.Methods, m)
			}
			out = append(out, s)
		}
		return true
	})
	sort.Slice(out, func(i, j int) bool { return out[i].File < out[j].File })
	return out
}

func request(target, param string, mutate func(*descriptorpb.FileDescriptorProto)) []byte {
	fd, err := protoregistry.GlobalFiles.FindFileByPath(target)
	if err != nil {
		fmt.Fprintln(os.Stderr, err)
		os.Exit(2)
	}
	var files []*descriptorpb.FileDescriptorProto
	seen := map[string]bool{}
	var visit func(f protoreflect.FileDescriptor)
	visit = func(f protoreflect.FileDescriptor) {
		if seen[f.Path()] {
			return
		}
		seen[f.Path()] = true
		imps := f.Imports()
		for i := 0; i < imps.Len(); i++ {
			visit(imps.Get(i).FileDescriptor)
		}
		p := protodesc.ToFileDescriptorProto(f)
		if f.Path() == target && mutate != nil {
			mutate(p)
		}
		files = append(files, p)
	}
	visit(fd)
	req := &pluginpb.CodeGeneratorRequest{FileToGenerate: []string{target}, Parameter: proto.String(param), ProtoFile: files}
	b, err := proto.Marshal(req)
	if err != nil {
		panic(err)
	}
	return b
}

func runPlugin(plugin string, req []byte) (*pluginpb.CodeGeneratorResponse, string, error) {
	cmd := exec.Command(plugin)
	cmd.Stdin = bytes.NewReader(req)
	var out, errb bytes.Buffer
	cmd.Stdout = &out
	cmd.Stderr = &errb
	err := cmd.Run()
	resp := &pluginpb.CodeGeneratorResponse{}
	if err == nil {
		if uerr := proto.Unmarshal(out.Bytes(), resp); uerr != nil {
			return nil, errb.String(), uerr
		}
	}
	return resp, errb.String(), err
}

// synthRequest builds, in memory, a service of every call type (with and without per-node arguments,
// async, server stream) whose request and response messages are all IMPORTED from other packages
// (google.protobuf.Empty, ordering.Metadata): generated code must qualify every message type.
func synthRequest(param string) []byte {
	md := protodesc.ToFileDescriptorProto((&ordering.Metadata{}).ProtoReflect().Descriptor().ParentFile())
	em := protodesc.ToFileDescriptorProto((&emptypb.Empty{}).ProtoReflect().Descriptor().ParentFile())
	gf, err := protoregistry.GlobalFiles.FindFileByPath("gorums.proto")
	if err != nil {
		fmt.Fprintln(os.Stderr, err)
		os.Exit(2)
	}
	var deps []*descriptorpb.FileDescriptorProto
	seen := map[string]bool{}
	var visit func(f protoreflect.FileDescriptor)
	visit = func(f protoreflect.FileDescriptor) {
		if seen[f.Path()] {
			return
		}
		seen[f.Path()] = true
		imps := f.Imports()
		for i := 0; i < imps.Len(); i++ {
			visit(imps.Get(i).FileDescriptor)
		}
		deps = append(deps, protodesc.ToFileDescriptorProto(f))
	}
	visit(gf)
	visit((&ordering.Metadata{}).ProtoReflect().Descriptor().ParentFile())
	visit((&emptypb.Empty{}).ProtoReflect().Descriptor().ParentFile())
	mdT, emT := ".ordering.Metadata", ".google.protobuf.Empty"
	type mm struct {
		name    string
		in, out string
		opts    []protoreflect.ExtensionType
		stream  bool
	}
	ms := []mm{
		{"plain_rpc", emT, mdT, nil, false},
		{"Uni", mdT, emT, []protoreflect.ExtensionType{gorums.E_Unicast}, false},
		{"Multi", mdT, emT, []protoreflect.ExtensionType{gorums.E_Multicast}, false},
		{"MultiPerNode", mdT, emT, []protoreflect.ExtensionType{gorums.E_Multicast, gorums.E_PerNodeArg}, false},
		{"Quorum", mdT, mdT, []protoreflect.ExtensionType{gorums.E_Quorumcall}, false},
		{"QuorumPerNode", emT, mdT, []protoreflect.ExtensionType{gorums.E_Quorumcall, gorums.E_PerNodeArg}, false},
		{"QuorumAsync", mdT, emT, []protoreflect.ExtensionType{gorums.E_Quorumcall, gorums.E_Async}, false},
		{"QuorumAsyncPerNode", mdT, mdT, []protoreflect.ExtensionType{gorums.E_Quorumcall, gorums.E_Async, gorums.E_PerNodeArg}, false},
		{"Corr", mdT, mdT, []protoreflect.ExtensionType{gorums.E_Correctable}, false},
		{"CorrPerNode", emT, mdT, []protoreflect.ExtensionType{gorums.E_Correctable, gorums.E_PerNodeArg}, false},
		{"CorrStream", mdT, emT, []protoreflect.ExtensionType{gorums.E_Correctable}, true},
		// options spelled out as "= false" (see explicitOff): whatever the generator makes of them, the
		// stub's signature and body must agree
		{"QuorumPerNodeOff", mdT, mdT, []protoreflect.ExtensionType{gorums.E_Quorumcall}, false},
		{"MultiPerNodeOff", mdT, emT, []protoreflect.ExtensionType{gorums.E_Multicast}, false},
	}
	// a second file generated in the SAME plugin run: the same method names with other call types
	// (anything the generator remembers per method name across files shows up here)
	ms2 := []mm{
		{"plain_rpc", mdT, mdT, []protoreflect.ExtensionType{gorums.E_Quorumcall}, false},
		{"Uni", mdT, emT, []protoreflect.ExtensionType{gorums.E_Multicast}, false},
		{"Multi", mdT, emT, []protoreflect.ExtensionType{gorums.E_Unicast}, false},
		{"Quorum", mdT, mdT, []protoreflect.ExtensionType{gorums.E_Quorumcall, gorums.E_Async}, false},
		{"QuorumAsync", mdT, emT, []protoreflect.ExtensionType{gorums.E_Quorumcall}, false},
		{"Corr", mdT, mdT, []protoreflect.ExtensionType{gorums.E_Quorumcall}, false},
		{"CorrStream", mdT, emT, []protoreflect.ExtensionType{gorums.E_Correctable}, false},
		{"QuorumPerNode", emT, mdT, []protoreflect.ExtensionType{gorums.E_Correctable, gorums.E_PerNodeArg}, false},
	}
	build := func(ms []mm) *descriptorpb.ServiceDescriptorProto {
		svc := &descriptorpb.ServiceDescriptorProto{Name: proto.String("Synth")}
		for _, m := range ms {
			md := &descriptorpb.MethodDescriptorProto{Name: proto.String(m.name), InputType: proto.String(m.in), OutputType: proto.String(m.out)}
			if m.stream {
				md.ServerStreaming = proto.Bool(true)
			}
			if len(m.opts) > 0 {
				md.Options = &descriptorpb.MethodOptions{}
				for _, e := range m.opts {
					proto.SetExtension(md.Options, e, true)
				}
				explicitOff(m.name, md.Options)
			}
			svc.Method = append(svc.Method, md)
		}
		return svc
	}
	fdp2 := &descriptorpb.FileDescriptorProto{
		Name: proto.String("zzsynth2/synth2.proto"), Package: proto.String("zzsynth2"), Syntax: proto.String("proto3"),
		Dependency: []string{"gorums.proto", "ordering/ordering.proto", "google/protobuf/empty.proto"},
		Options:    &descriptorpb.FileOptions{GoPackage: proto.String("github.com/relab/gorums/internal/zzsynth2")},
		Service:    []*descriptorpb.ServiceDescriptorProto{build(ms2)},
	}
	svc := &descriptorpb.ServiceDescriptorProto{Name: proto.String("Synth")}
	for _, m := range ms {
		md := &descriptorpb.MethodDescriptorProto{Name: proto.String(m.name), InputType: proto.String(m.in), OutputType: proto.String(m.out)}
		if m.stream {
			md.ServerStreaming = proto.Bool(true)
		}
		if len(m.opts) > 0 {
			md.Options = &descriptorpb.MethodOptions{}
			for _, e := range m.opts {
				proto.SetExtension(md.Options, e, true)
			}
			explicitOff(m.name, md.Options)
		}
		svc.Method = append(svc.Method, md)
	}
	_ = md
	_ = em
	fdp := &descriptorpb.FileDescriptorProto{
		Name: proto.String("zzsynth/synth.proto"), Package: proto.String("zzsynth"), Syntax: proto.String("proto3"),
		Dependency: []string{"gorums.proto", "ordering/ordering.proto", "google/protobuf/empty.proto"},
		Options:    &descriptorpb.FileOptions{GoPackage: proto.String("github.com/relab/gorums/internal/zzsynth")},
		Service:    []*descriptorpb.ServiceDescriptorProto{svc},
	}
	req := &pluginpb.CodeGeneratorRequest{FileToGenerate: []string{"zzsynth/synth.proto", "zzsynth2/synth2.proto"}, Parameter: proto.String(param), ProtoFile: append(deps, fdp, fdp2)}
	b, err := proto.Marshal(req)
	if err != nil {
		panic(err)
	}
	return b
}

func main() {
	if len(os.Args) < 2 {
		os.Exit(2)
	}
	switch os.Args[1] {
	case "synth":
		// gentool synth PLUGIN OUTDIR: run the plugin on the synthetic service; prints {"exit_error","stderr","files":[...]}
		plugin, outdir := os.Args[2], os.Args[3]
		resp, stderr, err := runPlugin(plugin, synthRequest("paths=source_relative"))
		res := map[string]interface{}{"exit_error": err != nil, "stderr": stderr}
		if resp != nil {
			res["response_error"] = resp.GetError()
			var names []string
			for _, f := range resp.File {
				p := filepath.Join(outdir, f.GetName())
				os.MkdirAll(filepath.Dir(p), 0o755)
				os.WriteFile(p, []byte(f.GetContent()), 0o644)
				names = append(names, f.GetName())
			}
			res["files"] = names
		}
		b, _ := json.Marshal(res)
		os.Stdout.Write(b)
	case "table":
		b, _ := json.MarshalIndent(table(len(os.Args) > 2 && os.Args[2] == "renamed"), "", " ")
		os.Stdout.Write(b)
	case "regen":
		plugin, param, target, outdir := os.Args[2], os.Args[3], os.Args[4], os.Args[5]
		var mut func(*descriptorpb.FileDescriptorProto)
		if len(os.Args) > 6 && os.Args[6] == "renamed" {
			mut = renameMethods
		}
		resp, stderr, err := runPlugin(plugin, request(target, param, mut))
		if err != nil || resp.Error != nil {
			fmt.Fprintf(os.Stderr, "plugin failed: %v %s %s\n", err, resp.GetError(), stderr)
			os.Exit(1)
		}
		var names []string
		for _, f := range resp.File {
			p := filepath.Join(outdir, f.GetName())
			os.MkdirAll(filepath.Dir(p), 0o755)
			os.WriteFile(p, []byte(f.GetContent()), 0o644)
			names = append(names, f.GetName())
		}
		b, _ := json.Marshal(names)
		os.Stdout.Write(b)
	case "mutate":
		// gentool mutate PLUGIN PARAM TARGET METHOD opt... : set extra boolean gorums options on METHOD in memory
		plugin, param, target, method := os.Args[2], os.Args[3], os.Args[4], os.Args[5]
		exts := map[string]protoreflect.ExtensionType{"rpc": gorums.E_Rpc, "unicast": gorums.E_Unicast, "multicast": gorums.E_Multicast,
			"quorumcall": gorums.E_Quorumcall, "correctable": gorums.E_Correctable, "async": gorums.E_Async, "per_node_arg": gorums.E_PerNodeArg}
		req := request(target, param, func(p *descriptorpb.FileDescriptorProto) {
			for _, o := range os.Args[6:] {
				if strings.HasPrefix(o, "add_message=") {
					p.MessageType = append(p.MessageType, &descriptorpb.DescriptorProto{Name: proto.String(strings.TrimPrefix(o, "add_message="))})
				}
			}
			for _, s := range p.Service {
				for _, m := range s.Method {
					if m.GetName() != method {
						continue
					}
					if m.Options == nil {
						m.Options = &descriptorpb.MethodOptions{}
					}
					for _, o := range os.Args[6:] {
						switch {
						case strings.HasPrefix(o, "add_message="):
						case strings.HasPrefix(o, "-"):
							proto.ClearExtension(m.Options, exts[o[1:]])
						case o == "client_stream":
							m.ClientStreaming = proto.Bool(true)
						case o == "server_stream":
							m.ServerStreaming = proto.Bool(true)
						default:
							proto.SetExtension(m.Options, exts[o], true)
						}
					}
				}
			}
		})
		resp, stderr, err := runPlugin(plugin, req)
		res := map[string]interface{}{"exit_error": err != nil, "stderr": stderr}
		if resp != nil {
			res["response_error"] = resp.GetError()
			res["files"] = len(resp.File)
			var total int
			for _, f := range resp.File {
				total += len(f.GetContent())
			}
			res["bytes"] = total
		}
		b, _ := json.Marshal(res)
		os.Stdout.Write(b)
	}
}
