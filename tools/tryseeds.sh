#!/bin/bash
# tryseeds.sh <dir with seed subdirs named Cxx-...>...: run the property's quick check on each seeded change (in memory)
for root in "$@"; do for d in $root/C*/; do n=$(basename $d); id=${n%%-*}; echo "$id $d/patch.diff $n"; done; done | xargs -P 5 -L 1 sh -c '/verif/bin/gvc selftest -one $0 $1 2>&1 | grep "^RESULT" | N=$2 python3 -c "
import sys,json,os
for l in sys.stdin:
    r=json.loads(l[7:])
    n=os.environ[\"N\"]
    if r.get(\"error\"): print(n,\"ERROR\",r[\"error\"][:300])
    elif r[\"killed\"]: print(n,\"KILLED\",\" | \".join(r[\"killed_by\"][:3])[:420])
    else: print(n,\"SURVIVED\")
"'
