#!/bin/bash
# Runs every claimed check (quick tier) and prints one summary line each; exit 1 on any violation.
rc=0
for p in $(python3 -c "import json;print(' '.join(c['property_id'] for c in json.load(open('/verif/MANIFEST.json'))['checks']))"); do
  out=$(/verif/bin/gvc check $p --tier quick 2>&1); r=$?
  echo "$out" | grep -v "^KNOWN-FINDING" | tail -1
  if [ $r -ne 0 ]; then rc=1; echo "$out" | grep VIOLATION | head -3; fi
done
# the resolution hints must match the contracts (regenerate with `gvc baseline` after editing contracts)
cp /verif/baseline.json /tmp/baseline.before.$$ && /verif/bin/gvc baseline >/dev/null && cmp -s /verif/baseline.json /tmp/baseline.before.$$ || echo "NOTE: baseline.json was stale and has been regenerated - commit it"
rm -f /tmp/baseline.before.$$
exit $rc
