#!/usr/bin/env python3
"""Regenerates /verif/MANIFEST.json from tools/claims.json (claimed checks) and
properties.jsonl (everything not claimed goes to not_applicable with its reason)."""
import json, subprocess, os
V = '/verif'
props = [json.loads(l) for l in open(f'{V}/properties.jsonl')]
claims = json.load(open(f'{V}/tools/claims.json'))
hooks = subprocess.run(['git', '-C', '/repo', 'log', '--format=%h', '--', 'zz_contracts_verif.go', 'cmd/protoc-gen-gorums/gengorums/zz_contracts_verif.go', 'cmd/protoc-gen-gorums/dev/zz_contracts_verif.go'], capture_output=True, text=True).stdout.split()
m = {
 "version": 1,
 "setup_cmd": "cd /verif/engine && GOFLAGS=-mod=vendor GOPROXY=off GOSUMDB=off GOTOOLCHAIN=local go build -o /verif/bin/gvc ./cmd/gvc",
 "hooks": {
  "guard": "verif",
  "enable": "go/packages loads /repo with -tags verif; the only hooks are comment-only contract files zz_contracts_verif.go (first line //go:build verif) read by gvc; replays enter packages through go test -overlay, nothing is written to /repo",
  "baseline_off_cmd": "cd /repo && GOFLAGS=-mod=mod GOPROXY=off GOSUMDB=off go test -vet=off -count=1 -timeout 25m ./...",
  "source_commits": list(reversed(hooks)),
  "add_only": True},
 "engines": [{"name": "gvc", "path": "/verif/engine", "serves_properties": sorted(claims['checks'].keys()),
   "kind_free_text": "own verification-condition generator: forward symbolic execution of go/ssa (NaiveForm) of /repo's working tree against //@ contracts (requires/ensures/loop invariants/ghost state/monitors/ownership modes/blocking effects), one SMT-LIB query per obligation and path, discharged by z3 5.1.0 / z3 4.8.12 / cvc5 1.0.3; failed obligations are turned into failing inputs by bounded witness searches (/verif/harness, injected through go test -overlay) on the real code; /verif/baseline.json holds name/anchor resolution hints only"}],
 "checks": [], "notes": claims.get('notes', ''), "not_applicable": []}
for p in props:
    c = claims['checks'].get(p['id'])
    if c:
        m['checks'].append({
         "property_id": p['id'],
         "quick_cmd": f"/verif/bin/gvc check {p['id']} --tier quick",
         "thorough_cmd": f"/verif/bin/gvc check {p['id']} --tier thorough",
         "evidence_file": f"/verif/evidence/{p['id']}.json",
         "replay_cmd_template": "/verif/bin/gvc replay {path}",
         "engine": "gvc",
         "level_claimed": {"category": c['category'], "text": c['text'], "design_ref": c.get('design_ref', 'DESIGN.md section 4, ' + p['id'])},
         "level_note": c['note'],
         "technique": c.get('technique', 'contract-based deductive verification: verification conditions generated from go/ssa of the real code against //@ contracts, discharged by z3/cvc5 (deciding step); a failed obligation is replayed by a bounded witness search on the real code (go test -overlay); a function whose contract no longer matches the code (contract drift) is decided by that bounded search where it is an exhaustive small-scope enumeration (labelled bounded, never counted as proved), otherwise the drift is reported')})
    else:
        m['not_applicable'].append({"property_id": p['id'], "reason": claims['not_applicable'].get(p['id'], "contracts specified in DESIGN.md section 4 but the check is not built yet")})
json.dump(m, open(f'{V}/MANIFEST.json', 'w'), indent=1)
print('checks:', [c['property_id'] for c in m['checks']])
