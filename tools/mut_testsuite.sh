#!/bin/bash
# mut_testsuite.sh <dir> <n>: does the repository's test suite pass with mutant n? prints "n pass|fail|nobuild"
d=$1; n=$2
tmp=$(mktemp -d /tmp/mts.XXXXXX); trap 'rm -rf $tmp' EXIT
rsync -a --exclude .git /repo/ $tmp/repo/
patch -p1 -s -f -d $tmp/repo -i $d/$n.patch >/dev/null || { echo "$n patcherror"; exit; }
cd $tmp/repo
export GOFLAGS=-mod=mod GOPROXY=off GOSUMDB=off GOTOOLCHAIN=local
go build ./... >/dev/null 2>&1 || { echo "$n nobuild"; exit; }
if go test -vet=off -count=1 -timeout 300s -skip 'TestChannelReconnection' . ./tests/... ./cmd/... > $tmp/log 2>&1; then
  # the one test with a fixed port runs under a lock
  if flock /tmp/mts.port5000.lock go test -vet=off -count=1 -timeout 120s -run 'TestChannelReconnection' . >> $tmp/log 2>&1; then echo "$n pass"; else echo "$n fail"; fi
else echo "$n fail"; fi
