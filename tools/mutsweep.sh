#!/bin/bash
# mutsweep.sh <dir made by mutgen> [jobs]: run, for every syntactic mutant, the check of the first property that
# verifies the mutated function; writes <dir>/results.tsv (n, verdict, first reason)
d=$1; j=${2:-8}
cut -f1,4 $d/index.tsv | while read n props; do echo "$n ${props%% *}"; done | xargs -P $j -L 1 sh -c '
  r=$(/verif/bin/gvc selftest -one $1 '"$d"'/$0.patch 2>/dev/null | grep "^RESULT" | head -1)
  echo "$r" | python3 -c "
import sys,json
l=sys.stdin.read().strip()
n=\"$0\"
try:
    r=json.loads(l[7:])
    kb=(r.get(\"killed_by\") or [\"\"])[0].replace(\"\n\",\" \")[:160]
    v=\"killed\" if r[\"killed\"] else \"SURVIVED\"
    if r.get(\"error\"): v=\"patch-error\"
    if kb.startswith(\"load:\"): v=\"nocompile\"
    print(n+\"\t\"+v+\"\t\"+kb)
except Exception as e:
    print(n+\"\terror\t\"+l[:100])
"' > $d/results.tsv
cut -f2 $d/results.tsv | sort | uniq -c
