#!/bin/bash
# core.sh <dumped smt2>: print the unsat core of a (cover) query
python3 - "$1" <<'PY'
import sys
f=sys.argv[1]
lines=open(f).read().split('\n')
out=['(set-option :produce-unsat-cores true)']
n=0
for l in lines:
    if l.startswith('(assert ') and 'forall ((s ' not in l and l!='(assert (not false))':
        n+=1
        out.append('(assert (! %s :named a%d))'%(l[8:-1],n))
    elif l=='(assert (not false))' or l=='(get-model)': pass
    else: out.append(l)
out.append('(get-unsat-core)')
open('/tmp/core.smt2','w').write('\n'.join(out))
PY
z3-new /tmp/core.smt2 | tail -1 | tr ' ()' '\n\n\n' | grep "^a[0-9]" | while read a; do grep ":named $a)" /tmp/core.smt2 | cut -c1-600; done
