// mutgen generates simple syntactic mutants of the functions under contract (a sweep that looks
// for holes in the contracts: a mutant that compiles, passes the repository's tests and is not
// reported by any check either is equivalent or shows a contract that is too weak).
//
//	mutgen -repo /repo -funcs funcs.txt -out DIR
//
// funcs.txt: lines "<file>\t<receiver-and-name as printed by gvc list>\t<props>"; one unified
// diff per mutant is written to DIR/<n>.patch with an index.tsv (n, file, function, props, what).
package main

import (
	"bytes"
	"flag"
	"fmt"
	"go/ast"
	"go/format"
	"go/parser"
	"go/token"
	"os"
	"os/exec"
	"path/filepath"
	"strings"
)

type target struct{ file, fn, props string }

func funcKey(fd *ast.FuncDecl) string {
	if fd.Recv == nil || len(fd.Recv.List) == 0 {
		return fd.Name.Name
	}
	var b bytes.Buffer
	format.Node(&b, token.NewFileSet(), fd.Recv.List[0].Type)
	return "(" + b.String() + ")." + fd.Name.Name
}

func main() {
	repo := flag.String("repo", "/repo", "")
	funcs := flag.String("funcs", "", "")
	out := flag.String("out", "", "")
	flag.Parse()
	data, err := os.ReadFile(*funcs)
	if err != nil {
		panic(err)
	}
	byFile := map[string][]target{}
	for _, l := range strings.Split(string(data), "\n") {
		fs := strings.Split(l, "\t")
		if len(fs) < 3 {
			continue
		}
		byFile[fs[0]] = append(byFile[fs[0]], target{fs[0], fs[1], fs[2]})
	}
	os.MkdirAll(*out, 0o755)
	idx, _ := os.Create(filepath.Join(*out, "index.tsv"))
	defer idx.Close()
	n := 0
	for file, ts := range byFile {
		path := filepath.Join(*repo, file)
		src, err := os.ReadFile(path)
		if err != nil {
			continue
		}
		want := map[string]string{}
		for _, t := range ts {
			want[t.fn] = t.props
		}
		// count mutation points, then re-parse for each one
		count := func() int {
			fset := token.NewFileSet()
			f, _ := parser.ParseFile(fset, path, src, parser.ParseComments)
			c := 0
			for _, d := range f.Decls {
				if fd, ok := d.(*ast.FuncDecl); ok && fd.Body != nil {
					if _, ok := want[funcKey(fd)]; ok {
						mutate(fd, -1, &c)
					}
				}
			}
			return c
		}()
		for k := 0; k < count; k++ {
			fset := token.NewFileSet()
			f, _ := parser.ParseFile(fset, path, src, parser.ParseComments)
			c := 0
			var what, fn, props string
			for _, d := range f.Decls {
				if fd, ok := d.(*ast.FuncDecl); ok && fd.Body != nil {
					if p, ok := want[funcKey(fd)]; ok {
						before := c
						if w := mutate(fd, k, &c); w != "" {
							what, fn, props = w, funcKey(fd), p
						}
						_ = before
					}
				}
			}
			if what == "" {
				continue
			}
			var buf bytes.Buffer
			if err := format.Node(&buf, fset, f); err != nil {
				continue
			}
			tmp := filepath.Join(*out, "mut.go")
			os.WriteFile(tmp, buf.Bytes(), 0o644)
			cmd := exec.Command("diff", "-u", "--label", "a/"+file, "--label", "b/"+file, path, tmp)
			diff, _ := cmd.Output()
			os.Remove(tmp)
			if len(diff) == 0 {
				continue
			}
			n++
			os.WriteFile(filepath.Join(*out, fmt.Sprintf("%04d.patch", n)), diff, 0o644)
			fmt.Fprintf(idx, "%04d\t%s\t%s\t%s\t%s\n", n, file, fn, props, what)
		}
	}
	fmt.Println("mutants:", n)
}

var swap = map[token.Token]token.Token{token.LSS: token.LEQ, token.LEQ: token.LSS, token.GTR: token.GEQ, token.GEQ: token.GTR,
	token.EQL: token.NEQ, token.NEQ: token.EQL, token.LAND: token.LOR, token.LOR: token.LAND, token.ADD: token.SUB, token.SUB: token.ADD}

// mutate applies the k-th mutation of fd (k < 0: count only); c is the running counter.
func mutate(fd *ast.FuncDecl, k int, c *int) string {
	what := ""
	hit := func() bool {
		*c++
		return *c-1 == k
	}
	pos := func(n ast.Node) string { return fmt.Sprint(n.Pos()) }
	var walkBlock func(list *[]ast.Stmt)
	var walk func(n ast.Node)
	walk = func(n ast.Node) {
		ast.Inspect(n, func(x ast.Node) bool {
			switch e := x.(type) {
			case *ast.FuncLit:
				walkBlock(&e.Body.List)
				return false
			case *ast.BlockStmt:
				walkBlock(&e.List)
				return false
			case *ast.CaseClause:
				for _, ex := range e.List {
					walk(ex)
				}
				walkBlock(&e.Body)
				return false
			case *ast.CommClause:
				if e.Comm != nil {
					walk(e.Comm)
				}
				walkBlock(&e.Body)
				return false
			case *ast.BinaryExpr:
				if to, ok := swap[e.Op]; ok {
					if e.Op == token.ADD {
						// not for string concatenation
						if bl, ok := e.X.(*ast.BasicLit); ok && bl.Kind == token.STRING {
							return true
						}
						if bl, ok := e.Y.(*ast.BasicLit); ok && bl.Kind == token.STRING {
							return true
						}
					}
					if hit() {
						what = fmt.Sprintf("operator %s -> %s at %s", e.Op, to, pos(e))
						e.Op = to
					}
				}
			case *ast.UnaryExpr:
				if e.Op == token.NOT {
					if hit() {
						what = "dropped negation at " + pos(e)
						e.X = &ast.UnaryExpr{Op: token.NOT, X: &ast.ParenExpr{X: e.X}} // !!x
					}
				}
			case *ast.IfStmt:
				if _, isNot := e.Cond.(*ast.UnaryExpr); !isNot {
					if hit() {
						what = "negated if condition at " + pos(e)
						e.Cond = &ast.UnaryExpr{Op: token.NOT, X: &ast.ParenExpr{X: e.Cond}}
					}
				}
			case *ast.BasicLit:
				if e.Kind == token.INT && (e.Value == "0" || e.Value == "1") {
					if hit() {
						nv := "1"
						if e.Value == "1" {
							nv = "0"
						}
						what = fmt.Sprintf("literal %s -> %s at %s", e.Value, nv, pos(e))
						e.Value = nv
					}
				}
			case *ast.Ident:
				if e.Name == "true" || e.Name == "false" {
					if hit() {
						nv := "false"
						if e.Name == "false" {
							nv = "true"
						}
						what = fmt.Sprintf("%s -> %s at %s", e.Name, nv, pos(e))
						e.Name = nv
					}
				}
			}
			return true
		})
	}
	walkBlock = func(list *[]ast.Stmt) {
		for i := 0; i < len(*list); i++ {
			s := (*list)[i]
			deletable := false
			switch st := s.(type) {
			case *ast.ExprStmt, *ast.IncDecStmt, *ast.DeferStmt, *ast.GoStmt, *ast.SendStmt:
				deletable = true
			case *ast.AssignStmt:
				deletable = st.Tok != token.DEFINE
			case *ast.BranchStmt:
				deletable = st.Tok == token.CONTINUE || st.Tok == token.BREAK
			case *ast.ReturnStmt:
				deletable = len(st.Results) == 0 && fd.Type.Results == nil
			}
			if deletable && hit() {
				var b bytes.Buffer
				format.Node(&b, token.NewFileSet(), s)
				txt := strings.Split(b.String(), "\n")[0]
				what = fmt.Sprintf("deleted statement %q", txt)
				*list = append(append([]ast.Stmt{}, (*list)[:i]...), (*list)[i+1:]...)
				i--
				continue
			}
			walk(s)
		}
	}
	walkBlock(&fd.Body.List)
	return what
}
