module mutgen

go 1.22
