#!/bin/bash
# run_harness.sh <harness test file> [pkg dir]: run a witness-search harness on /repo's real code through an overlay
src=$1; pkg=${2:-.}
tmp=$(mktemp -d); trap 'rm -rf $tmp' EXIT
printf '{"Replace": {"/repo/%s/zz_gvc_replay_test.go": "%s"}}' "$pkg" "$src" > $tmp/ov.json
cd /repo/$pkg && GOFLAGS=-mod=mod GOPROXY=off GOSUMDB=off GOTOOLCHAIN=local go test -overlay $tmp/ov.json -vet=off -count=1 -timeout 300s -run 'TestGvcReplay' -v . 2>&1 | tail -15
