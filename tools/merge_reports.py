#!/usr/bin/env python3
"""merge_reports.py <report.json>...: merge partial `gvc selftest` reports (-refactors / -seeds / -mutants runs,
plus files holding one RESULT line per `gvc selftest -one` run) into selftest/report.json for tools/mkindex.py.
Later files win for the same (property, patch). Entries of the previous report.json that no given file covers
are kept and marked stale (their run predates the current tree)."""
import json, sys, os, re
V = '/verif'
out = {}
notes = []
def norm(p):
    p = re.sub(r'^/root/\.vp/runs/\d+/verif/', '', p)
    return p.replace(V + '/', '')
def kind_of(p):
    if p.startswith('seeded/'):
        return 'seeded-documented-miss' if os.path.exists(os.path.join(V, os.path.dirname(p), 'EXPECTED-MISS.md')) else 'seeded'
    if p.startswith('refactors/'):
        return 'refactor'
    return 'mutant'
prev = os.path.join(V, 'selftest', 'report.json')
if os.path.exists(prev):
    for r in json.load(open(prev)).get('results', []):
        r['patch'] = norm(r['patch']); r['stale'] = True
        out[(r['property'], r['patch'])] = r
for f in sys.argv[1:]:
    txt = open(f).read()
    rs = []
    if txt.lstrip().startswith('{'):
        j = json.loads(txt)
        rs = j.get('results', [])
        notes.append('%s: %d results' % (os.path.basename(f), len(rs)))
    else:
        for l in txt.splitlines():
            if l.startswith('RESULT '):
                rs.append(json.loads(l[7:]))
        notes.append('%s: %d single runs' % (os.path.basename(f), len(rs)))
    for r in rs:
        r['patch'] = norm(r['patch'])
        if not r.get('kind'):
            r['kind'] = kind_of(r['patch'])
        r.pop('stale', None)
        out[(r['property'], r['patch'])] = r
# drop entries whose patch no longer exists
res = [r for r in out.values() if os.path.exists(os.path.join(V, r['patch']))]
order = {'mutant': 0, 'seeded': 1, 'seeded-documented-miss': 1, 'refactor': 2}
res.sort(key=lambda r: (order.get(r.get('kind'), 3), r['patch'], r['property']))
rep = {'merged_from': notes, 'results': res,
       'note': 'merged from partial corpus runs (tools/merge_reports.py); entries marked stale come from an earlier full run'}
json.dump(rep, open(prev, 'w'), indent=1)
k = sum(1 for r in res if r.get('kind') in ('mutant', 'seeded') and r.get('killed'))
n = sum(1 for r in res if r.get('kind') in ('mutant', 'seeded'))
fa = sum(1 for r in res if r.get('kind') == 'refactor' and (r.get('killed') or r.get('error')))
print('results', len(res), 'mutants+seeds reported', k, 'of', n, 'refactor alarms', fa, 'stale', sum(1 for r in res if r.get('stale')))
