#!/bin/bash
# confirm_seeds.sh <seed dirs...>: confirm each seeded change in a scratch worktree and copy it to /verif/seeded/<name>/
export GOFLAGS=-mod=mod GOPROXY=off GOSUMDB=off GOTOOLCHAIN=local
WT=/tmp/confirm-wt
git -C /repo worktree remove --force $WT 2>/dev/null
git -C /repo worktree add --detach -q $WT HEAD || exit 2
for d in "$@"; do
  n=$(basename $d); id=${n%%-*}
  out=/verif/seeded/$n; mkdir -p $out
  cp $d/patch.diff $out/; cp $d/*_test.go $out/ 2>/dev/null; cp $d/README.md $out/AGENT-README.md 2>/dev/null
  race=""; [ "$id" = "C15" ] && race="-race"
  cd $WT
  git apply $out/patch.diff || { echo "$n: patch does not apply" | tee $out/confirm.log; continue; }
  cp $d/*_test.go $WT/
  go build ./... > $out/confirm.log 2>&1; b=$?
  go test $race -vet=off -count=1 -timeout 300s -run 'TestSeed' . >> $out/confirm.log 2>&1; with=$?
  rm -f $WT/zz_seed_*_test.go
  go test -vet=off -count=1 -timeout 600s . ./tests/... > $out/suite.log 2>&1; suite=$?
  git apply -R $out/patch.diff
  cp $d/*_test.go $WT/
  go test $race -vet=off -count=1 -timeout 300s -run 'TestSeed' . > $out/confirm_base.log 2>&1; without=$?
  rm -f $WT/zz_seed_*_test.go
  git -C $WT status --short | grep -v "^??" > /dev/null && echo "worktree dirty after $n"
  python3 - "$n" "$id" "$b" "$with" "$suite" "$without" "$race" <<'PY'
import json,sys
n,id,b,w,s,wo,race=sys.argv[1:8]
meta={"seed":n,"property":id,"build_rc":int(b),"demo_with_change_rc":int(w),"suite_with_change_rc":int(s),"demo_without_change_rc":int(wo),
 "confirmed": int(b)==0 and int(w)!=0 and int(s)==0 and int(wo)==0,
 "ran":["go build ./...","go test %s -vet=off -count=1 -run TestSeed . (with the change: must fail)"%race,"go test -vet=off -count=1 . ./tests/... (with the change: must pass)","go test %s -vet=off -count=1 -run TestSeed . (without the change: must pass)"%race],
 "needs_to_manifest":"see AGENT-README.md","source":"independent sub-agent given only the property text and a scratch worktree"}
json.dump(meta,open('/verif/seeded/%s/meta.json'%n,'w'),indent=1)
print(n, "confirmed" if meta["confirmed"] else "NOT CONFIRMED", meta)
PY
done
cd /; git -C /repo worktree remove --force $WT
