#!/bin/bash
# confirm_seeds.sh <seed dirs...>: confirm each seeded change in a scratch worktree and copy it to /verif/seeded/<name>/
# A file `placement` in the seed directory ("<test file> <package dir>" per line) places demo tests outside the module root.
export GOFLAGS=-mod=mod GOPROXY=off GOSUMDB=off GOTOOLCHAIN=local
WT=/tmp/confirm-wt-$$
git -C /repo worktree add --detach -q $WT HEAD || exit 2
trap 'cd /; git -C /repo worktree remove --force $WT; git -C /repo worktree prune' EXIT
for d in "$@"; do
  d=${d%/}; n=$(basename $d); id=${n%%-*}
  out=/verif/seeded/$n; mkdir -p $out
  cp $d/patch.diff $out/; cp $d/*_test.go $out/ 2>/dev/null; cp $d/README.md $out/AGENT-README.md 2>/dev/null; cp $d/placement $out/ 2>/dev/null
  race=""; [ "$id" = "C15" ] && race="-race"
  cd $WT
  place() { # copy demo tests to their packages; prints the package list
    pk="."
    for f in $out/*_test.go; do
      bn=$(basename $f); dest="."
      if [ -f $out/placement ]; then p=$(awk -v f=$bn '$1==f{print $2}' $out/placement); [ -n "$p" ] && dest=$p; fi
      cp $f $WT/$dest/; echo "$dest/$bn" >> $WT/.placed
      case " $pk " in *" ./$dest "*) ;; *) [ "$dest" != "." ] && pk="$pk ./$dest";; esac
    done
    if [ -f $out/placement ] && ! grep -q -v . /dev/null; then :; fi
    echo $pk
  }
  unplace() { [ -f $WT/.placed ] && (cd $WT; xargs rm -f < .placed; rm -f .placed); }
  git apply $out/patch.diff || { echo "$n: patch does not apply" | tee $out/confirm.log; continue; }
  pkgs=$(place)
  # run only packages that hold a demo
  runpk=""; for p in $pkgs; do if ls $WT/$p/zz_seed_*_test.go >/dev/null 2>&1; then runpk="$runpk $p"; fi; done
  go build ./... > $out/confirm.log 2>&1; b=$?
  go test $race -vet=off -count=1 -timeout 600s -run 'TestSeed' $runpk >> $out/confirm.log 2>&1; with=$?
  unplace
  go test -vet=off -count=1 -timeout 900s . ./tests/... > $out/suite.log 2>&1; suite=$?
  git apply -R $out/patch.diff
  place >/dev/null
  go test $race -vet=off -count=1 -timeout 600s -run 'TestSeed' $runpk > $out/confirm_base.log 2>&1; without=$?
  unplace
  git -C $WT status --short | grep -v "^??" > /dev/null && { echo "worktree dirty after $n"; git -C $WT checkout -q -- .; }
  git -C $WT clean -fdq
  python3 - "$n" "$id" "$b" "$with" "$suite" "$without" "$race" "$runpk" <<'PY'
import json,sys,os
n,id,b,w,s,wo,race,runpk=sys.argv[1:9]
p='/verif/seeded/%s/meta.json'%n
meta=json.load(open(p)) if os.path.exists(p) else {}
meta.update({"seed":n,"property":id,"build_rc":int(b),"demo_with_change_rc":int(w),"suite_with_change_rc":int(s),"demo_without_change_rc":int(wo),
 "confirmed": int(b)==0 and int(w)!=0 and int(s)==0 and int(wo)==0,
 "ran":["go build ./...","go test %s -vet=off -count=1 -run TestSeed %s (with the change: must fail)"%(race,runpk.strip()),"go test -vet=off -count=1 . ./tests/... (with the change: must pass)","go test %s -vet=off -count=1 -run TestSeed %s (without the change: must pass)"%(race,runpk.strip())],
 "needs_to_manifest":"see AGENT-README.md","source":"independent sub-agent given only the property text and a scratch worktree"})
json.dump(meta,open(p,'w'),indent=1)
print(n, "confirmed" if meta["confirmed"] else "NOT CONFIRMED", {k:meta[k] for k in ("build_rc","demo_with_change_rc","suite_with_change_rc","demo_without_change_rc")})
PY
done
