#!/bin/bash
# tryrefactor.sh <patch> [props...]: run the quick checks on the tree with a behaviour-preserving
# patch applied in memory; every "killed" line is a false alarm. Default: all properties.
p=$1; shift
props="$@"; [ -z "$props" ] && props="C01 C02 C03 C04 C05 C06 C07 C08 C09 C10 C11 C12 C13 C14 C15 C16 C17 C18 C19"
for id in $props; do echo "$id $p"; done | xargs -P 6 -L 1 sh -c '/verif/bin/gvc selftest -one $0 $1 2>&1 | grep "^RESULT" | python3 -c "
import sys,json
for l in sys.stdin:
    r=json.loads(l[7:])
    if r.get(\"error\"): print(r[\"property\"],\"ERROR\",r[\"error\"][:300])
    elif r[\"killed\"]: print(r[\"property\"],\"ALARM\",\" | \".join(r[\"killed_by\"][:4])[:700])
"'
