#!/bin/bash
# tryseed.sh <patch> <prop>...: apply a seeded change to /repo, run the given checks, undo it (reverse-apply)
p=$1; shift
git -C /repo apply "$p" || { echo "PATCH DOES NOT APPLY"; exit 2; }
for id in "$@"; do /verif/bin/gvc check $id 2>&1 | grep -v "^KNOWN-FINDING" | cut -c1-230 | tail -4; done
git -C /repo apply -R "$p" || echo "REVERSE APPLY FAILED"
git -C /repo status --short | head -3
