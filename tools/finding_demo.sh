#!/bin/bash
# finding_demo.sh <D8|D9|...>: run the witness test of an open known finding on /repo's real code.
# The test is injected through `go test -overlay`; nothing is written to /repo. Exit 1 = the defect reproduced.
id=$(echo "$1" | tr 'A-Z' 'a-z')
src=/verif/findings/zz_finding_${id}_test.go
[ -f "$src" ] || { echo "no witness test for $1"; exit 2; }
tmp=$(mktemp -d); trap 'rm -rf $tmp' EXIT
pkg="."; [ "$id" = "d22" ] && pkg="./tests/config"   # D22 needs a generated package
printf '{"Replace": {"/repo/%s/zz_finding_%s_test.go": "%s"}}' "$pkg" "$id" "$src" > $tmp/ov.json
race=""; [ "$id" = "d16" ] && race="-race"
cd /repo && GOFLAGS=-mod=mod GOPROXY=off GOSUMDB=off GOTOOLCHAIN=local go test $race -overlay $tmp/ov.json -vet=off -count=1 -timeout 300s -run "TestFinding$(echo $1 | tr 'a-z' 'A-Z')" -v $pkg 2>&1 | tail -25
exit ${PIPESTATUS[0]}
