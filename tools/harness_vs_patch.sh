#!/bin/bash
# harness_vs_patch.sh <harness test file> <patch> [pkg dir]: run a harness on a scratch copy of /repo with the patch applied
src=$1; patch=$2; pkg=${3:-.}
tmp=$(mktemp -d /tmp/hvp.XXXXXX); trap 'rm -rf $tmp' EXIT
rsync -a --exclude .git /repo/ $tmp/repo/
patch -p1 -s -f -d $tmp/repo -i $patch >/dev/null || { echo "PATCH-ERROR"; exit 2; }
printf '{"Replace": {"%s/repo/%s/zz_gvc_replay_test.go": "%s"}}' "$tmp" "$pkg" "$src" > $tmp/ov.json
cd $tmp/repo/$pkg && GOFLAGS=-mod=mod GOPROXY=off GOSUMDB=off GOTOOLCHAIN=local go test -overlay $tmp/ov.json -vet=off -count=1 -timeout 120s -run 'TestGvcReplay' . 2>&1 | grep -E "GVC-REPLAY|scenario:|^\s+C[0-9]|panic:|FAIL|^ok|cannot|undefined" | head -6
