#!/usr/bin/env python3
# design_numbers.py: refresh the "(level; obligations / VCs / seconds" part of the per-property headings of
# DESIGN.md section 4 from the evidence files of the last quick run.
import json, re
p = '/verif/DESIGN.md'
s = open(p).read()
def sub(m):
    pid = m.group(1)
    try:
        e = json.load(open('/verif/evidence/%s.json' % pid))
    except Exception:
        return m.group(0)
    c = e['coverage']
    return '%s(%s; %d / %d / %d s' % (m.group(2), e['level'], c['obligations'], c['verification_conditions'], round(e['wall_s']))
s = re.sub(r'(?m)^((?:### )(C\d\d) — [^\n(]*)\((?:proof|other|bounded); \d+ / \d+ / \d+ s', lambda m: sub(type('M', (), {'group': lambda self, i: {0: m.group(0), 1: m.group(2), 2: m.group(1)}[i]})()), s)
open(p, 'w').write(s)
