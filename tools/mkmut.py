#!/usr/bin/env python3
"""mkmut.py PROP NAME FILE OLD NEW [FILE OLD NEW ...] -- create a self-test mutant patch
(unified diff against /repo's working tree) under /verif/selftest/mutants/PROP/NAME.patch.
OLD must occur exactly once in FILE."""
import sys, os, difflib
prop, name = sys.argv[1], sys.argv[2]
rest = sys.argv[3:]
out = []
orig, cur = {}, {}
for i in range(0, len(rest), 3):
    f, old, new = rest[i:i+3]
    if f not in cur:
        orig[f] = cur[f] = open(os.path.join('/repo', f)).read()
    if cur[f].count(old) != 1:
        sys.exit(f"{f}: OLD occurs {cur[f].count(old)} times: {old!r}")
    cur[f] = cur[f].replace(old, new)
for f in cur:
    out += list(difflib.unified_diff(orig[f].splitlines(True), cur[f].splitlines(True), 'a/' + f, 'b/' + f))
d = os.path.join('/verif/selftest/mutants', prop)
os.makedirs(d, exist_ok=True)
open(os.path.join(d, name + '.patch'), 'w').write(''.join(out))
print('wrote', os.path.join(d, name + '.patch'))
