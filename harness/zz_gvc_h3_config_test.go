// gvc-replay pkg=
package gorums

// Witness search H3 (bounded): the configuration constructors and the manager's node pool of the
// REAL code (WithNodeIDs, WithNodeMap, WithNodeList, And, Except, WithoutNodes, WithNewNodes,
// NodeIDs/Nodes/Size/Equal, AddNode/Node) on managers that do not connect. The oracle is the set
// algebra of property C14 and the ordering of C19.
//
// Bound: pools of up to 4 nodes with ids from {1..5}; every pair of sub-configurations for And and
// Except (operands with and without spare capacity, in sorted and unsorted order); every id list of
// length <= 3 over {1..6} (with repetitions) for WithNodeIDs and WithoutNodes; address maps and
// lists over 3 addresses with duplicates, id reuse and id/address conflicts.

import (
	"fmt"
	"reflect"
	"sort"
	"testing"
)

func h3Addr(id uint32) string { return fmt.Sprintf("127.0.0.1:%d", 7000+id) }

func h3Manager(ids ...uint32) (*RawManager, error) {
	mgr := NewRawManager(WithNoConnect())
	if len(ids) == 0 {
		return mgr, nil
	}
	m := map[string]uint32{}
	for _, id := range ids {
		m[h3Addr(id)] = id
	}
	if _, err := NewRawConfiguration(mgr, WithNodeMap(m)); err != nil {
		return nil, err
	}
	return mgr, nil
}

func h3Sorted(ids []uint32) []uint32 {
	set := map[uint32]bool{}
	for _, id := range ids {
		set[id] = true
	}
	out := []uint32{}
	for id := range set {
		out = append(out, id)
	}
	sort.Slice(out, func(a, b int) bool { return out[a] < out[b] })
	return out
}

// h3Check: the result lists exactly want (as a set), once each, sorted, with pooled objects.
func h3Check(what string, mgr *RawManager, c RawConfiguration, err error, want []uint32) error {
	want = h3Sorted(want)
	if len(want) == 0 {
		if err == nil {
			return fmt.Errorf("%s: the result would be empty: an error is required, got configuration %v", what, c.NodeIDs())
		}
		return nil
	}
	if err != nil {
		return fmt.Errorf("%s: unexpected error %v (want nodes %v)", what, err, want)
	}
	got := c.NodeIDs()
	if !reflect.DeepEqual(append([]uint32{}, got...), want) {
		return fmt.Errorf("%s: configuration lists %v, want exactly %v (each node once, sorted by id)", what, got, want)
	}
	if c.Size() != len(want) || len(c.Nodes()) != len(want) {
		return fmt.Errorf("%s: Size()=%d len(Nodes())=%d but NodeIDs()=%v", what, c.Size(), len(c.Nodes()), got)
	}
	for i, n := range c.Nodes() {
		if n == nil || n.ID() != want[i] {
			return fmt.Errorf("%s: Nodes()[%d] does not agree with NodeIDs()[%d]=%d", what, i, i, want[i])
		}
		pooled, found := mgr.Node(n.ID())
		if !found || pooled != n {
			return fmt.Errorf("%s: node %d of the configuration is not the manager's node object for that id", what, n.ID())
		}
	}
	return nil
}

func h3SubConfigs(mgr *RawManager, pool []uint32) ([]RawConfiguration, error) {
	var out []RawConfiguration
	for mask := 1; mask < 1<<len(pool); mask++ {
		var ids []uint32
		for i, id := range pool {
			if mask&(1<<i) != 0 {
				ids = append(ids, id)
			}
		}
		c, err := NewRawConfiguration(mgr, WithNodeIDs(ids))
		if err != nil {
			return nil, fmt.Errorf("WithNodeIDs(%v) on a pool holding them: %v", ids, err)
		}
		if e := h3Check(fmt.Sprintf("WithNodeIDs(%v)", ids), mgr, c, err, ids); e != nil {
			return nil, e
		}
		out = append(out, c)
		// the same nodes with spare capacity behind the slice (as left by an append)
		spare := make(RawConfiguration, len(c), len(c)+3)
		copy(spare, c)
		out = append(out, spare)
	}
	return out, nil
}

func h3Perms(xs []uint32) [][]uint32 {
	if len(xs) <= 1 {
		return [][]uint32{append([]uint32(nil), xs...)}
	}
	var out [][]uint32
	for i := range xs {
		rest := append(append([]uint32(nil), xs[:i]...), xs[i+1:]...)
		for _, p := range h3Perms(rest) {
			out = append(out, append([]uint32{xs[i]}, p...))
		}
	}
	return out
}

func h3Snapshot(c RawConfiguration) []*RawNode {
	return append([]*RawNode(nil), c[:cap(c)]...)
}

func h3Unchanged(what string, c RawConfiguration, snap []*RawNode, l int) error {
	if len(c) != l {
		return fmt.Errorf("%s: operand length changed", what)
	}
	now := c[:cap(c)]
	for i := range snap {
		if now[i] != snap[i] {
			return fmt.Errorf("%s: the operand was modified: element %d of its backing array changed (operand ids now %v)", what, i, c.NodeIDs())
		}
	}
	return nil
}

func h3Algebra() (int, error) {
	count := 0
	pool := []uint32{5, 2, 4, 1}
	mgr, err := h3Manager(pool...)
	if err != nil {
		return 0, err
	}
	if got := mgr.NodeIDs(); !reflect.DeepEqual(got, []uint32{1, 2, 4, 5}) {
		return 0, fmt.Errorf("manager pool lists %v, want [1 2 4 5]", got)
	}
	subs, err := h3SubConfigs(mgr, []uint32{1, 2, 4, 5})
	if err != nil {
		return 0, err
	}
	for _, a := range subs {
		for _, b := range subs {
			count += 2
			sa, sb := h3Snapshot(a), h3Snapshot(b)
			la, lb := len(a), len(b)
			ai, bi := a.NodeIDs(), b.NodeIDs()
			// union
			u, err := NewRawConfiguration(mgr, a.And(b))
			what := fmt.Sprintf("%v(cap %d).And(%v(cap %d))", ai, cap(a), bi, cap(b))
			if e := h3Check(what, mgr, u, err, append(append([]uint32{}, ai...), bi...)); e != nil {
				return count, e
			}
			if e := h3Unchanged(what, a, sa, la); e != nil {
				return count, e
			}
			if e := h3Unchanged(what, b, sb, lb); e != nil {
				return count, e
			}
			// difference
			var diff []uint32
			for _, x := range ai {
				in := false
				for _, y := range bi {
					in = in || x == y
				}
				if !in {
					diff = append(diff, x)
				}
			}
			d, err := NewRawConfiguration(mgr, a.Except(b))
			what = fmt.Sprintf("%v.Except(%v)", ai, bi)
			if e := h3Check(what, mgr, d, err, diff); e != nil {
				return count, e
			}
			if e := h3Unchanged(what, a, sa, la); e != nil {
				return count, e
			}
			if e := h3Unchanged(what, b, sb, lb); e != nil {
				return count, e
			}
			if a.Equal(b) != reflect.DeepEqual(ai, bi) {
				return count, fmt.Errorf("%v.Equal(%v) == %v", ai, bi, a.Equal(b))
			}
		}
	}
	// id lists with repetitions, unknown ids, any order
	var lists [][]uint32
	for x := uint32(1); x <= 6; x++ {
		lists = append(lists, []uint32{x})
		for y := uint32(1); y <= 6; y++ {
			lists = append(lists, []uint32{x, y})
			for z := uint32(1); z <= 6; z++ {
				lists = append(lists, []uint32{x, y, z})
			}
		}
	}
	inPool := map[uint32]bool{1: true, 2: true, 4: true, 5: true}
	all, _ := NewRawConfiguration(mgr, WithNodeIDs([]uint32{1, 2, 4, 5}))
	for _, l := range lists {
		count += 2
		orig := append([]uint32(nil), l...)
		c, err := NewRawConfiguration(mgr, WithNodeIDs(l))
		known := true
		for _, id := range l {
			known = known && inPool[id]
		}
		if !known {
			if err == nil {
				return count, fmt.Errorf("WithNodeIDs(%v): an id is not registered, an error is required, got %v", l, c.NodeIDs())
			}
		} else if e := h3Check(fmt.Sprintf("WithNodeIDs(%v)", l), mgr, c, err, l); e != nil {
			return count, e
		}
		if !reflect.DeepEqual(l, orig) {
			return count, fmt.Errorf("WithNodeIDs modified its id list: %v -> %v", orig, l)
		}
		var keep []uint32
		for _, id := range []uint32{1, 2, 4, 5} {
			rm := false
			for _, r := range l {
				rm = rm || r == id
			}
			if !rm {
				keep = append(keep, id)
			}
		}
		w, err := NewRawConfiguration(mgr, all.WithoutNodes(l...))
		if e := h3Check(fmt.Sprintf("[1 2 4 5].WithoutNodes(%v)", l), mgr, w, err, keep); e != nil {
			return count, e
		}
		if !reflect.DeepEqual(l, orig) {
			return count, fmt.Errorf("WithoutNodes modified its id list: %v -> %v", orig, l)
		}
	}
	if got := mgr.NodeIDs(); !reflect.DeepEqual(got, []uint32{1, 2, 4, 5}) || mgr.Size() != 4 {
		return count, fmt.Errorf("after the set operations the manager pool lists %v (size %d), want [1 2 4 5]", got, mgr.Size())
	}
	return count, nil
}

func h3Creation() (int, error) {
	count := 0
	// address maps: fresh, reuse of a registered (address, id), id reused for another address, two addresses -> same id
	type mcase struct {
		pre  map[string]uint32
		m    map[string]uint32
		want []uint32 // nil = error required
		why  string
	}
	a1, a2, a3 := h3Addr(1), h3Addr(2), h3Addr(3)
	cases := []mcase{
		{nil, map[string]uint32{a1: 1, a2: 2, a3: 3}, []uint32{1, 2, 3}, "three fresh nodes"},
		{nil, map[string]uint32{a3: 9, a1: 4}, []uint32{4, 9}, "two fresh nodes"},
		{map[string]uint32{a1: 1}, map[string]uint32{a1: 1, a2: 2}, []uint32{1, 2}, "one registered node named again with its own address"},
		{map[string]uint32{a1: 1}, map[string]uint32{a2: 1}, nil, "id 1 is registered under another address"},
		{nil, map[string]uint32{a1: 7, a2: 7}, nil, "two distinct addresses mapped to the same id"},
		{map[string]uint32{a1: 1, a2: 2}, map[string]uint32{a2: 2}, []uint32{2}, "a registered node alone"},
		{nil, map[string]uint32{}, nil, "empty map"},
	}
	for _, c := range cases {
		count++
		mgr := NewRawManager(WithNoConnect())
		if c.pre != nil {
			if _, err := NewRawConfiguration(mgr, WithNodeMap(c.pre)); err != nil {
				return count, fmt.Errorf("WithNodeMap(%v): %v", c.pre, err)
			}
		}
		before := map[uint32]*RawNode{}
		for _, n := range mgr.Nodes() {
			before[n.ID()] = n
		}
		cfg, err := NewRawConfiguration(mgr, WithNodeMap(c.m))
		what := fmt.Sprintf("WithNodeMap(%v) after %v (%s)", c.m, c.pre, c.why)
		if c.want == nil {
			if err == nil {
				return count, fmt.Errorf("%s: an error is required, got configuration %v", what, cfg.NodeIDs())
			}
			continue
		}
		if e := h3Check(what, mgr, cfg, err, c.want); e != nil {
			return count, e
		}
		for addr, id := range c.m {
			n, _ := mgr.Node(id)
			if n == nil || n.Address() != addr {
				return count, fmt.Errorf("%s: node %d does not carry address %s", what, id, addr)
			}
			if old, ok := before[id]; ok && old != n {
				return count, fmt.Errorf("%s: the manager replaced the node object of id %d", what, id)
			}
		}
	}
	// address lists: ids are generated; duplicates collapse; WithNewNodes adds to an old configuration
	lists := [][]string{{a1}, {a1, a2}, {a2, a1, a3}, {a1, a1}, {a1, a2, a1}, {}}
	for _, l := range lists {
		count++
		mgr := NewRawManager(WithNoConnect())
		orig := append([]string(nil), l...)
		cfg, err := NewRawConfiguration(mgr, WithNodeList(l))
		what := fmt.Sprintf("WithNodeList(%v)", l)
		distinct := map[string]bool{}
		for _, a := range l {
			distinct[a] = true
		}
		if len(distinct) == 0 {
			if err == nil {
				return count, fmt.Errorf("%s: an error is required for an empty list", what)
			}
			continue
		}
		if err != nil {
			return count, fmt.Errorf("%s: %v", what, err)
		}
		if cfg.Size() != len(distinct) || mgr.Size() != len(distinct) {
			return count, fmt.Errorf("%s: %d nodes in the configuration, %d in the pool, want one per distinct address (%d)", what, cfg.Size(), mgr.Size(), len(distinct))
		}
		if e := h3Check(what, mgr, cfg, err, cfg.NodeIDs()); e != nil {
			return count, e
		}
		seen := map[string]bool{}
		for _, n := range cfg.Nodes() {
			if !distinct[n.Address()] || seen[n.Address()] {
				return count, fmt.Errorf("%s: node %d carries address %s", what, n.ID(), n.Address())
			}
			seen[n.Address()] = true
		}
		if !reflect.DeepEqual(l, orig) {
			return count, fmt.Errorf("%s modified its address list", what)
		}
		// the same list again yields the same objects
		again, err := NewRawConfiguration(mgr, WithNodeList(l))
		if err != nil || !again.Equal(cfg) || mgr.Size() != len(distinct) {
			return count, fmt.Errorf("%s a second time: %v %v, pool size %d", what, again.NodeIDs(), err, mgr.Size())
		}
		for i := range again {
			if again[i] != cfg[i] {
				return count, fmt.Errorf("%s a second time yields a different node object for id %d", what, again[i].ID())
			}
		}
		// WithNewNodes
		snap := h3Snapshot(cfg)
		more, err := NewRawConfiguration(mgr, cfg.WithNewNodes(WithNodeList([]string{a3, a1})))
		wantN := len(distinct)
		if !distinct[a3] {
			wantN++
		}
		if !distinct[a1] {
			wantN++
		}
		if err != nil || more.Size() != wantN {
			return count, fmt.Errorf("%s.WithNewNodes([%s %s]): %v %v, want %d nodes", what, a3, a1, more.NodeIDs(), err, wantN)
		}
		if e := h3Check(what+".WithNewNodes", mgr, more, err, more.NodeIDs()); e != nil {
			return count, e
		}
		for _, n := range cfg {
			if !more.contains(n.ID()) {
				return count, fmt.Errorf("%s.WithNewNodes lost node %d of the old configuration", what, n.ID())
			}
		}
		if e := h3Unchanged(what+".WithNewNodes", cfg, snap, len(distinct)); e != nil {
			return count, e
		}
	}
	// the pool answers lookups correctly whatever the order in which nodes were added
	for _, perm := range h3Perms([]uint32{1, 2, 3, 4}) {
		count++
		mgr := NewRawManager(WithNoConnect())
		objs := map[uint32]*RawNode{}
		for k, id := range perm {
			n, err := NewRawNodeWithID(h3Addr(id), id)
			if err != nil {
				return count, err
			}
			if err := mgr.AddNode(n); err != nil {
				return count, fmt.Errorf("AddNode(%d) after %v: %v", id, perm[:k], err)
			}
			objs[id] = n
			for _, q := range []uint32{1, 2, 3, 4} {
				got, found := mgr.Node(q)
				if want, added := objs[q]; added != found || (found && got != want) {
					return count, fmt.Errorf("after AddNode of ids %v: Node(%d) = (%v, %v), want found=%v with the object that was added", perm[:k+1], q, got, found, added)
				}
			}
			if mgr.Size() != k+1 {
				return count, fmt.Errorf("after AddNode of ids %v: Size() = %d", perm[:k+1], mgr.Size())
			}
		}
		// naming registered nodes again (in the order they were added) creates nothing new
		m := map[string]uint32{}
		for _, id := range perm[:2] {
			m[h3Addr(id)] = id
		}
		cfg, err := NewRawConfiguration(mgr, WithNodeMap(m))
		if e := h3Check(fmt.Sprintf("WithNodeMap(%v) on a pool filled in order %v", m, perm), mgr, cfg, err, perm[:2]); e != nil {
			return count, e
		}
		for _, n := range cfg {
			if objs[n.ID()] != n {
				return count, fmt.Errorf("WithNodeMap(%v) on a pool filled in order %v: node %d is a second object for a registered id", m, perm, n.ID())
			}
		}
		if mgr.Size() != 4 {
			return count, fmt.Errorf("WithNodeMap(%v) on a pool filled in order %v: the pool now holds %d nodes, want 4", m, perm, mgr.Size())
		}
	}
	// address lists naming a node again after a node with a smaller generated id
	{
		n1, _ := NewRawNode(a1)
		n2, _ := NewRawNode(a2)
		hi, lo := a1, a2
		if n1.ID() < n2.ID() {
			hi, lo = a2, a1
		}
		for _, l := range [][]string{{hi, lo, hi}, {lo, hi, lo}, {hi, lo, lo, hi}} {
			count++
			mgr := NewRawManager(WithNoConnect())
			cfg, err := NewRawConfiguration(mgr, WithNodeList(l))
			if err != nil || cfg.Size() != 2 || mgr.Size() != 2 {
				return count, fmt.Errorf("WithNodeList(%v): configuration %v (err %v), pool size %d; want two nodes, one per distinct address", l, cfg.NodeIDs(), err, mgr.Size())
			}
			if e := h3Check(fmt.Sprintf("WithNodeList(%v)", l), mgr, cfg, err, cfg.NodeIDs()); e != nil {
				return count, e
			}
		}
		mgr := NewRawManager(WithNoConnect())
		c1, err1 := NewRawConfiguration(mgr, WithNodeList([]string{hi}))
		c2, err2 := NewRawConfiguration(mgr, WithNodeList([]string{lo, hi}))
		count++
		if err1 != nil || err2 != nil || mgr.Size() != 2 || c2.Size() != 2 || !c2.contains(c1[0].ID()) {
			return count, fmt.Errorf("WithNodeList([hi]) then WithNodeList([lo hi]): %v %v / %v %v, pool size %d", c1.NodeIDs(), err1, c2.NodeIDs(), err2, mgr.Size())
		}
		for _, n := range c2 {
			if n.ID() == c1[0].ID() && n != c1[0] {
				return count, fmt.Errorf("WithNodeList([hi]) then WithNodeList([lo hi]): two node objects for id %d", n.ID())
			}
		}
	}
	// AddNode: a second node with a registered id is refused and the pool is unchanged
	mgr, _ := h3Manager(3, 1)
	n, _ := NewRawNodeWithID(h3Addr(8), 3)
	count++
	if err := mgr.AddNode(n); err == nil {
		return count, fmt.Errorf("AddNode accepted a second node object for id 3")
	}
	if p, _ := mgr.Node(3); p == n || mgr.Size() != 2 {
		return count, fmt.Errorf("a refused AddNode changed the pool")
	}
	return count, nil
}

func TestGvcReplay(t *testing.T) {
	n1, err := h3Algebra()
	if err != nil {
		t.Fatalf("GVC-REPLAY: the configuration algebra violates C14.\n  %v", err)
	}
	n2, err := h3Creation()
	if err != nil {
		t.Fatalf("GVC-REPLAY: node creation / the node pool violates C14.\n  %v", err)
	}
	t.Logf("GVC-REPLAY-OK scenarios=%d bound=\"pools of <= 4 nodes; all pairs of sub-configurations (tight and with spare capacity); id lists of length <= 3 over 6 ids; address maps and lists over 3 addresses\"", n1+n2)
}
