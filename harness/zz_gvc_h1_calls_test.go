// gvc-replay pkg=
package gorums

// Witness search H1 (bounded): the call functions QuorumCall, AsyncCall(+handleAsyncCall),
// CorrectableCall(+handleCorrectableCall), Multicast, Unicast and RPCCall of the REAL code are
// driven over puppet channels: hand-built *channel values without sender/receiver goroutines; the
// test plays the network: it takes the requests from the nodes' send queues and answers through
// the real routeResponse. Every scenario is deterministic. The oracle is a reference model of
// properties C01, C02, C03 (program order), C06, C07 (error list), C08 (own context) and C11.
//
// Bound: configurations of 1..3 nodes; every subset of nodes skipped by the per-node function;
// every assignment reply/error/silent to the targeted nodes; every arrival order; every quorum
// threshold 1..n+1 (n+1 = the quorum function never reports a quorum).
//
// Run by /verif/bin/gvc through `go test -overlay` (nothing is written to the repository).

import (
	"context"
	"errors"
	"fmt"
	"os"
	"reflect"
	"sort"
	"strings"
	"testing"
	"time"

	"github.com/relab/gorums/tests/mock"
	"google.golang.org/protobuf/reflect/protoreflect"
)

const h1Method = "mock.Server.Test"

type h1Net struct {
	cfg    RawConfiguration
	chans  []*channel
	cancel context.CancelFunc
}

func h1NewNet(n int) *h1Net {
	mgr := NewRawManager(WithNoConnect())
	parent, cancel := context.WithCancel(context.Background())
	net := &h1Net{cancel: cancel}
	for i := 0; i < n; i++ {
		node := &RawNode{id: uint32(10 * (i + 1)), addr: fmt.Sprintf("127.0.0.1:%d", 9000+i), mgr: mgr}
		ch := &channel{
			sendQ:           make(chan request, 4),
			node:            node,
			responseRouters: make(map[uint64]responseRouter),
			parentCtx:       parent,
		}
		node.channel = ch
		net.cfg = append(net.cfg, node)
		net.chans = append(net.chans, ch)
	}
	return net
}

// take returns the request queued for node i, if any.
func (nt *h1Net) take(i int) (request, bool) {
	select {
	case r := <-nt.chans[i].sendQ:
		return r, true
	default:
		return request{}, false
	}
}

// replyChanOf returns the call's reply channel as registered in node i's router table.
func (nt *h1Net) replyChanOf(i int, id uint64) (chan<- response, bool) {
	ch := nt.chans[i]
	ch.responseMut.Lock()
	defer ch.responseMut.Unlock()
	r, ok := ch.responseRouters[id]
	return r.c, ok
}

// route delivers an answer through the real routeResponse; it must never block.
func (nt *h1Net) route(i int, id uint64, r response) error {
	done := make(chan struct{})
	go func() { nt.chans[i].routeResponse(id, r); close(done) }()
	select {
	case <-done:
		return nil
	case <-time.After(2 * time.Second):
		return fmt.Errorf("routeResponse for node %d blocked (the node's receiver would be wedged)", nt.cfg[i].id)
	}
}

func h1Drained(c chan<- response) bool {
	deadline := time.Now().Add(2 * time.Second)
	for len(c) != 0 && time.Now().Before(deadline) {
		time.Sleep(50 * time.Microsecond)
	}
	return len(c) == 0
}

type h1Scenario struct {
	n       int
	perNode bool
	skip    []bool // per node index: the per-node function yields no message
	outcome []int  // per node index: 0 reply, 1 error, 2 silent
	order   []int  // arrival order (node indices with outcome 0 or 1)
	q       int    // the quorum function reports a quorum when it has q replies
}

func (s h1Scenario) String() string {
	var oc []string
	for i := 0; i < s.n; i++ {
		switch {
		case s.perNode && s.skip[i]:
			oc = append(oc, "skipped")
		case s.outcome[i] == 0:
			oc = append(oc, "replies")
		case s.outcome[i] == 1:
			oc = append(oc, "fails")
		default:
			oc = append(oc, "silent")
		}
	}
	return fmt.Sprintf("nodes=%d perNodeFn=%v behaviour=%v arrivalOrder(node index)=%v quorumAt=%d replies", s.n, s.perNode, oc, s.order, s.q)
}

func (s h1Scenario) targeted(i int) bool { return !(s.perNode && s.skip[i]) }

func (s h1Scenario) ntargets() int {
	k := 0
	for i := 0; i < s.n; i++ {
		if s.targeted(i) {
			k++
		}
	}
	return k
}

// the reference model -----------------------------------------------------------------------

type h1QFCall struct {
	sameRequest bool
	replies     map[uint32]protoreflect.ProtoMessage // snapshot
	mapID       uintptr
}

type h1Model struct {
	qf      [][]uint32 // reply sets (sorted node ids) the quorum function must see, in order
	result  string     // "quorum" | "incomplete" | "blocked"
	errIDs  []uint32   // node ids in the error list, in arrival order, at the point of return
	replies int
	used    int // number of answers consumed before the call returns
}

func h1Reference(s h1Scenario, ids []uint32) h1Model {
	var m h1Model
	var set []uint32
	nt := s.ntargets()
	if nt == 0 {
		m.result = "incomplete"
		return m
	}
	for k, i := range s.order {
		m.used = k + 1
		if s.outcome[i] == 1 {
			m.errIDs = append(m.errIDs, ids[i])
		} else {
			set = append(set, ids[i])
			sort.Slice(set, func(a, b int) bool { return set[a] < set[b] })
			m.qf = append(m.qf, append([]uint32(nil), set...))
			m.replies = len(set)
			if len(set) >= s.q {
				m.result = "quorum"
				return m
			}
		}
		if len(m.errIDs)+len(set) == nt {
			m.result = "incomplete"
			return m
		}
	}
	m.result = "blocked"
	return m
}

// scenario enumeration ----------------------------------------------------------------------

func h1Perms(xs []int) [][]int {
	if len(xs) <= 1 {
		return [][]int{append([]int(nil), xs...)}
	}
	var out [][]int
	for i := range xs {
		rest := append(append([]int(nil), xs[:i]...), xs[i+1:]...)
		for _, p := range h1Perms(rest) {
			out = append(out, append([]int{xs[i]}, p...))
		}
	}
	return out
}

func h1Scenarios(maxN int) []h1Scenario {
	var out []h1Scenario
	for n := 1; n <= maxN; n++ {
		for pn := 0; pn < 2; pn++ {
			skips := 1
			if pn == 1 {
				skips = 1 << n
			}
			for sk := 0; sk < skips; sk++ {
				skip := make([]bool, n)
				for i := range skip {
					skip[i] = sk&(1<<i) != 0
				}
				pow := 1
				for i := 0; i < n; i++ {
					pow *= 3
				}
				for oc := 0; oc < pow; oc++ {
					outcome := make([]int, n)
					v := oc
					bad := false
					for i := 0; i < n; i++ {
						outcome[i] = v % 3
						v /= 3
						if pn == 1 && skip[i] && outcome[i] != 2 {
							bad = true // a skipped node never answers: count it once, as silent
						}
					}
					if bad {
						continue
					}
					var answering []int
					for i := 0; i < n; i++ {
						if outcome[i] != 2 {
							answering = append(answering, i)
						}
					}
					for _, order := range h1Perms(answering) {
						for q := 1; q <= n+1; q++ {
							out = append(out, h1Scenario{n: n, perNode: pn == 1, skip: skip, outcome: outcome, order: order, q: q})
						}
					}
				}
			}
		}
	}
	return out
}

// shared pieces --------------------------------------------------------------------------------

type h1Env struct {
	s       h1Scenario
	nt      *h1Net
	ids     []uint32
	req     *mock.Request
	pnMsg   []*mock.Request // what the per-node function returns per node index (nil = typed nil)
	replies []*mock.Response
	errs    []error
	trace   []h1QFCall
	qfOut   []protoreflect.ProtoMessage
	taken   []request
	got     []bool
}

func h1NewEnv(s h1Scenario) *h1Env {
	e := &h1Env{s: s, nt: h1NewNet(s.n), req: &mock.Request{Val: "request"}}
	for i := 0; i < s.n; i++ {
		e.ids = append(e.ids, e.nt.cfg[i].id)
		e.replies = append(e.replies, &mock.Response{Val: fmt.Sprintf("reply-from-%d", e.nt.cfg[i].id)})
		e.errs = append(e.errs, fmt.Errorf("node %d failed", e.nt.cfg[i].id))
		if s.perNode && !s.skip[i] {
			e.pnMsg = append(e.pnMsg, &mock.Request{Val: fmt.Sprintf("for-%d", e.nt.cfg[i].id)})
		} else {
			e.pnMsg = append(e.pnMsg, nil)
		}
	}
	e.taken = make([]request, s.n)
	e.got = make([]bool, s.n)
	return e
}

// perNodeFn mirrors what generated code builds around a typed user function: "no message" is a
// typed nil pointer inside a non-nil interface.
func (e *h1Env) perNodeFn() func(protoreflect.ProtoMessage, uint32) protoreflect.ProtoMessage {
	if !e.s.perNode {
		return nil
	}
	return func(m protoreflect.ProtoMessage, nid uint32) protoreflect.ProtoMessage {
		for i, id := range e.ids {
			if id == nid {
				return e.pnMsg[i]
			}
		}
		return (*mock.Request)(nil)
	}
}

func (e *h1Env) recordQF(r protoreflect.ProtoMessage, replies map[uint32]protoreflect.ProtoMessage) protoreflect.ProtoMessage {
	snap := map[uint32]protoreflect.ProtoMessage{}
	for k, v := range replies {
		snap[k] = v
	}
	e.trace = append(e.trace, h1QFCall{sameRequest: r == protoreflect.ProtoMessage(e.req), replies: snap, mapID: reflect.ValueOf(replies).Pointer()})
	out := &mock.Response{Val: fmt.Sprintf("quorum-function-result-%d", len(e.trace))}
	e.qfOut = append(e.qfOut, out)
	return out
}

// collect takes the queued requests; it checks C06 (who gets what) and returns the message id.
func (e *h1Env) collect() (uint64, error) {
	var id uint64
	for i := 0; i < e.s.n; i++ {
		r, ok := e.nt.take(i)
		e.taken[i], e.got[i] = r, ok
		if ok != e.s.targeted(i) {
			if ok {
				return 0, fmt.Errorf("C06: node %d is skipped by the per-node function but a request was queued for it", e.ids[i])
			}
			return 0, fmt.Errorf("C03/C06: no request was queued for targeted node %d by the time the call function had queued its requests", e.ids[i])
		}
		if !ok {
			continue
		}
		if _, more := e.nt.take(i); more {
			return 0, fmt.Errorf("C06: two requests were queued for node %d", e.ids[i])
		}
		want := protoreflect.ProtoMessage(e.req)
		if e.s.perNode {
			want = e.pnMsg[i]
		}
		if r.msg == nil || r.msg.Message != want {
			return 0, fmt.Errorf("C06: node %d was sent %v, want exactly %v", e.ids[i], r.msg, want)
		}
		if r.msg.Metadata == nil || r.msg.Metadata.Method != h1Method {
			return 0, fmt.Errorf("C06: request for node %d carries method %q", e.ids[i], r.msg.Metadata.GetMethod())
		}
		if id != 0 && r.msg.Metadata.MessageID != id {
			return 0, fmt.Errorf("C05: the requests of one call carry different message ids")
		}
		id = r.msg.Metadata.MessageID
	}
	return id, nil
}

func (e *h1Env) answer(i int) response {
	if e.s.outcome[i] == 1 {
		return response{nid: e.ids[i], err: e.errs[i]}
	}
	return response{nid: e.ids[i], msg: e.replies[i]}
}

// checkQF compares the quorum function's invocations with the model (C01).
func (e *h1Env) checkQF(m h1Model) error {
	if len(e.trace) != len(m.qf) {
		return fmt.Errorf("C01: the quorum function was called %d times, want %d (once per successful reply until a quorum is reported)", len(e.trace), len(m.qf))
	}
	for k, c := range e.trace {
		if !c.sameRequest {
			return fmt.Errorf("C01: call %d of the quorum function did not get the caller's original request", k+1)
		}
		if c.mapID != e.trace[0].mapID {
			return fmt.Errorf("C01: call %d of the quorum function got a different map object", k+1)
		}
		var ids []uint32
		for id := range c.replies {
			ids = append(ids, id)
		}
		sort.Slice(ids, func(a, b int) bool { return ids[a] < ids[b] })
		if !reflect.DeepEqual(ids, m.qf[k]) {
			return fmt.Errorf("C01: call %d of the quorum function saw replies of nodes %v, want %v", k+1, ids, m.qf[k])
		}
		for id, msg := range c.replies {
			for i := range e.ids {
				if e.ids[i] == id && msg != protoreflect.ProtoMessage(e.replies[i]) {
					return fmt.Errorf("C01: the reply stored under node %d is not that node's message", id)
				}
			}
		}
	}
	return nil
}

func (e *h1Env) checkErr(m h1Model, err error, who string) error {
	switch m.result {
	case "quorum":
		if err != nil {
			return fmt.Errorf("C01/C02: %s returned error %v although the quorum function reported a quorum", who, err)
		}
		return nil
	case "incomplete":
		if !errors.Is(err, Incomplete) {
			return fmt.Errorf("C02: every targeted node has answered without a quorum: %s must fail with Incomplete, got %v", who, err)
		}
	case "blocked":
		if !errors.Is(err, context.Canceled) {
			return fmt.Errorf("C02/C08: %s must end with its context's error, got %v", who, err)
		}
	}
	qe, ok := err.(QuorumCallError)
	if !ok {
		return fmt.Errorf("C02: %s returned %T, want QuorumCallError", who, err)
	}
	if qe.replies != m.replies {
		return fmt.Errorf("C02: the error reports %d replies, want %d", qe.replies, m.replies)
	}
	var ids []uint32
	for _, ne := range qe.errors {
		ids = append(ids, ne.nodeID)
	}
	if len(ids) != len(m.errIDs) || (len(ids) > 0 && !reflect.DeepEqual(ids, m.errIDs)) {
		return fmt.Errorf("C02/C07: the error lists failures of nodes %v, want exactly %v", ids, m.errIDs)
	}
	return nil
}

// drive delivers the scripted answers. It returns when the call has returned (waitDone) or, for a
// call the model says blocks, after the answers were consumed and the context was cancelled.
func (e *h1Env) drive(m h1Model, id uint64, cancel context.CancelFunc, done <-chan struct{}) error {
	var rc chan<- response
	for i := 0; i < e.s.n; i++ {
		if e.s.targeted(i) {
			c, ok := e.nt.replyChanOf(i, id)
			if !ok {
				return fmt.Errorf("C05: no router is registered for node %d under the call's message id", e.ids[i])
			}
			if rc != nil && c != rc {
				return fmt.Errorf("C05: the nodes of one call have different reply channels")
			}
			rc = c
		} else if _, ok := e.nt.replyChanOf(i, id); ok {
			return fmt.Errorf("C06/C18: a router was registered for skipped node %d", e.ids[i])
		}
	}
	for k, i := range e.s.order {
		if k == m.used && m.result != "blocked" {
			// the call must have returned by now: the remaining answers arrive late
			select {
			case <-done:
			case <-time.After(3 * time.Second):
				return fmt.Errorf("C02: the call did not return although %s", map[string]string{"quorum": "the quorum function reported a quorum", "incomplete": "every targeted node had answered"}[m.result])
			}
		}
		if err := e.nt.route(i, id, e.answer(i)); err != nil {
			return fmt.Errorf("C09: %v", err)
		}
	}
	if m.result == "blocked" {
		if rc != nil && !h1Drained(rc) {
			return fmt.Errorf("C02: the call stopped consuming answers")
		}
		time.Sleep(300 * time.Microsecond)
		select {
		case <-done:
			return fmt.Errorf("C02: the call returned although nodes are still owed, no quorum was reported and its context is live")
		default:
		}
		cancel()
	}
	select {
	case <-done:
	case <-time.After(3 * time.Second):
		if m.result == "blocked" {
			return fmt.Errorf("C08: the call did not return after its context was cancelled")
		}
		return fmt.Errorf("C02: the call did not return (%s expected)", m.result)
	}
	return nil
}

// the call types ---------------------------------------------------------------------------------

func h1QuorumCall(s h1Scenario) error {
	e := h1NewEnv(s)
	defer e.nt.cancel()
	m := h1Reference(s, e.ids)
	ctx, cancel := context.WithCancel(context.Background())
	defer cancel()
	d := QuorumCallData{Message: e.req, Method: h1Method, PerNodeArgFn: e.perNodeFn(),
		QuorumFunction: func(r protoreflect.ProtoMessage, replies map[uint32]protoreflect.ProtoMessage) (protoreflect.ProtoMessage, bool) {
			out := e.recordQF(r, replies)
			return out, len(replies) >= s.q
		}}
	var resp protoreflect.ProtoMessage
	var err error
	done := make(chan struct{})
	go func() { resp, err = e.nt.cfg.QuorumCall(ctx, d); close(done) }()
	if s.ntargets() == 0 {
		select {
		case <-done:
		case <-time.After(3 * time.Second):
			return fmt.Errorf("C02: no node is targeted, yet the call waits (for its context) instead of failing with Incomplete")
		}
		return e.checkErr(m, err, "QuorumCall")
	}
	// the requests are queued by the calling goroutine before it waits
	deadline := time.Now().Add(3 * time.Second)
	for i := 0; i < s.n; i++ {
		for s.targeted(i) && len(e.nt.chans[i].sendQ) == 0 && time.Now().Before(deadline) {
			time.Sleep(50 * time.Microsecond)
		}
	}
	id, cerr := e.collect()
	if cerr != nil {
		return cerr
	}
	if derr := e.drive(m, id, cancel, done); derr != nil {
		return derr
	}
	if qerr := e.checkQF(m); qerr != nil {
		return qerr
	}
	if cerr := e.checkErr(m, err, "QuorumCall"); cerr != nil {
		return cerr
	}
	if m.result == "quorum" && resp != e.qfOut[len(e.qfOut)-1] {
		return fmt.Errorf("C01: QuorumCall returned %v, want the value of the quorum function's last call", resp)
	}
	return nil
}

func h1AsyncCall(s h1Scenario) error {
	e := h1NewEnv(s)
	defer e.nt.cancel()
	m := h1Reference(s, e.ids)
	ctx, cancel := context.WithCancel(context.Background())
	defer cancel()
	d := QuorumCallData{Message: e.req, Method: h1Method, PerNodeArgFn: e.perNodeFn(),
		QuorumFunction: func(r protoreflect.ProtoMessage, replies map[uint32]protoreflect.ProtoMessage) (protoreflect.ProtoMessage, bool) {
			out := e.recordQF(r, replies)
			return out, len(replies) >= s.q
		}}
	fut := e.nt.cfg.AsyncCall(ctx, d)
	if fut == nil {
		return fmt.Errorf("C02: AsyncCall returned a nil future")
	}
	// C03: AsyncCall has queued every request itself, before returning
	id, cerr := e.collect()
	if cerr != nil {
		return cerr
	}
	done := make(chan struct{})
	var resp protoreflect.ProtoMessage
	var err error
	go func() { resp, err = fut.Get(); close(done) }()
	if s.ntargets() == 0 {
		select {
		case <-done:
		case <-time.After(3 * time.Second):
			return fmt.Errorf("C02: no node is targeted, yet the future never completes")
		}
		if !fut.Done() {
			return fmt.Errorf("C02: Get returned but Done reports false")
		}
		return e.checkErr(m, err, "the future")
	}
	if fut.Done() {
		return fmt.Errorf("C02: the future is done before any answer")
	}
	if derr := e.drive(m, id, cancel, done); derr != nil {
		return derr
	}
	if !fut.Done() {
		return fmt.Errorf("C02: Get returned but Done reports false")
	}
	if qerr := e.checkQF(m); qerr != nil {
		return qerr
	}
	if cerr := e.checkErr(m, err, "the future"); cerr != nil {
		return cerr
	}
	if m.result == "quorum" && resp != e.qfOut[len(e.qfOut)-1] {
		return fmt.Errorf("C01: the future holds %v, want the value of the quorum function's last call", resp)
	}
	r2, e2 := fut.Get()
	if r2 != resp || (e2 == nil) != (err == nil) {
		return fmt.Errorf("C02: a second Get returned a different result")
	}
	return nil
}

// correctable: the quorum function's level is the number of replies; published states are compared
// after every answer.
func h1CorrectableCall(s h1Scenario) error {
	e := h1NewEnv(s)
	defer e.nt.cancel()
	m := h1Reference(s, e.ids)
	ctx, cancel := context.WithCancel(context.Background())
	defer cancel()
	d := CorrectableCallData{Message: e.req, Method: h1Method, PerNodeArgFn: e.perNodeFn(),
		QuorumFunction: func(r protoreflect.ProtoMessage, replies map[uint32]protoreflect.ProtoMessage) (protoreflect.ProtoMessage, int, bool) {
			out := e.recordQF(r, replies)
			return out, len(replies), len(replies) >= s.q
		}}
	corr := e.nt.cfg.CorrectableCall(ctx, d)
	if corr == nil {
		return fmt.Errorf("C11: CorrectableCall returned nil")
	}
	id, cerr := e.collect()
	if cerr != nil {
		return cerr
	}
	if s.ntargets() == 0 {
		select {
		case <-corr.Done():
		case <-time.After(3 * time.Second):
			return fmt.Errorf("C11/C02: no node is targeted, yet the correctable never completes")
		}
		_, _, err := corr.Get()
		return e.checkErr(m, err, "the correctable")
	}
	if _, lvl, _ := corr.Get(); lvl != LevelNotSet {
		return fmt.Errorf("C11: a new correctable reports level %d, want LevelNotSet", lvl)
	}
	select {
	case <-corr.Done():
		return fmt.Errorf("C11: the correctable is done before any answer")
	default:
	}
	watch1 := corr.Watch(1)
	var rc chan<- response
	for i := 0; i < s.n; i++ {
		if s.targeted(i) {
			c, ok := e.nt.replyChanOf(i, id)
			if !ok {
				return fmt.Errorf("C05: no router is registered for node %d under the call's message id", e.ids[i])
			}
			rc = c
		}
	}
	level, nrep := LevelNotSet, 0
	for k, i := range s.order {
		if k >= m.used {
			break
		}
		if err := e.nt.route(i, id, e.answer(i)); err != nil {
			return fmt.Errorf("C09: %v", err)
		}
		if s.outcome[i] == 0 {
			nrep++
			level = nrep
		}
		last := k == m.used-1 && m.result != "blocked"
		if last {
			select {
			case <-corr.Done():
			case <-time.After(3 * time.Second):
				return fmt.Errorf("C11: the correctable did not complete although %s", map[string]string{"quorum": "the quorum function reported a quorum", "incomplete": "every targeted node had answered"}[m.result])
			}
		} else {
			if !h1Drained(rc) {
				return fmt.Errorf("C11: the call stopped consuming answers")
			}
			// the published level follows at once: wait for it, bounded
			deadline := time.Now().Add(2 * time.Second)
			for {
				_, lvl, _ := corr.Get()
				if lvl == level || time.Now().After(deadline) {
					break
				}
				time.Sleep(50 * time.Microsecond)
			}
		}
		resp, lvl, err := corr.Get()
		if lvl != level {
			return fmt.Errorf("C11: after answer %d the published level is %d, want %d (the level the quorum function returned for %d replies)", k+1, lvl, level, nrep)
		}
		if nrep > 0 && resp != e.qfOut[nrep-1] {
			return fmt.Errorf("C11: after answer %d the published reply is %v, want the quorum function's value %v", k+1, resp, e.qfOut[nrep-1])
		}
		if !last && err != nil {
			return fmt.Errorf("C11: an intermediate state carries error %v", err)
		}
		if nrep >= 1 {
			select {
			case <-watch1:
			case <-time.After(2 * time.Second):
				return fmt.Errorf("C11: Watch(1) is still blocked although level %d has been published", level)
			}
		}
	}
	if m.result == "blocked" {
		select {
		case <-corr.Done():
			return fmt.Errorf("C11: the correctable completed although nodes are still owed, no quorum was reported and the context is live")
		default:
		}
		cancel()
		select {
		case <-corr.Done():
		case <-time.After(3 * time.Second):
			return fmt.Errorf("C08/C11: the correctable did not complete after its context was cancelled")
		}
	}
	_, lvl, err := corr.Get()
	if lvl != level {
		return fmt.Errorf("C11: the final level is %d, want %d: a correctable never lowers its level", lvl, level)
	}
	select {
	case <-watch1:
	case <-time.After(2 * time.Second):
		return fmt.Errorf("C11: Watch(1) is still blocked after completion")
	}
	if qerr := e.checkQF(m); qerr != nil {
		return qerr
	}
	return e.checkErr(m, err, "the correctable")
}

// one-way calls: outcome 0 = the sender confirms the send, 2 = it never does.
func h1Multicast(s h1Scenario, noWait bool) error {
	e := h1NewEnv(s)
	defer e.nt.cancel()
	ctx, cancel := context.WithCancel(context.Background())
	defer cancel()
	d := QuorumCallData{Message: e.req, Method: h1Method, PerNodeArgFn: e.perNodeFn()}
	var opts []CallOption
	if noWait {
		opts = append(opts, WithNoSendWaiting())
	}
	done := make(chan struct{})
	go func() { e.nt.cfg.Multicast(ctx, d, opts...); close(done) }()
	deadline := time.Now().Add(3 * time.Second)
	for i := 0; i < s.n; i++ {
		for s.targeted(i) && len(e.nt.chans[i].sendQ) == 0 && time.Now().Before(deadline) {
			time.Sleep(50 * time.Microsecond)
		}
	}
	if noWait {
		select {
		case <-done:
		case <-time.After(3 * time.Second):
			return fmt.Errorf("C06: Multicast with WithNoSendWaiting did not return although nothing confirms the sends")
		}
	}
	id, cerr := e.collect()
	if cerr != nil {
		return cerr
	}
	for i := 0; i < s.n; i++ {
		if e.got[i] && e.taken[i].waitForSend() == noWait {
			return fmt.Errorf("C06: the request for node %d has waitForSend == %v", e.ids[i], !noWait)
		}
		_, reg := e.nt.replyChanOf(i, id)
		if reg != (s.targeted(i) && !noWait) {
			return fmt.Errorf("C06/C18: router registered for node %d: %v, want %v", e.ids[i], reg, s.targeted(i) && !noWait)
		}
	}
	if noWait {
		return nil
	}
	// confirm the sends one by one, in the scripted order; silent nodes never confirm
	confirmed := 0
	for _, i := range s.order {
		select {
		case <-done:
			return fmt.Errorf("C06: Multicast returned after %d of %d send confirmations", confirmed, s.ntargets())
		default:
		}
		if err := e.nt.route(i, id, response{nid: e.ids[i]}); err != nil {
			return fmt.Errorf("C09: %v", err)
		}
		confirmed++
	}
	if confirmed == s.ntargets() {
		select {
		case <-done:
			return nil
		case <-time.After(3 * time.Second):
			return fmt.Errorf("C06: Multicast did not return after all %d sends were confirmed", confirmed)
		}
	}
	time.Sleep(300 * time.Microsecond)
	select {
	case <-done:
		return fmt.Errorf("C06: Multicast returned after %d of %d send confirmations", confirmed, s.ntargets())
	default:
	}
	cancel()
	select {
	case <-done:
	case <-time.After(3 * time.Second):
		return fmt.Errorf("C08: Multicast did not return after its context was cancelled")
	}
	return nil
}

func h1NodeCalls() error {
	// RPCCall: reply, error, context
	for oc := 0; oc < 3; oc++ {
		nt := h1NewNet(1)
		ctx, cancel := context.WithCancel(context.Background())
		req := &mock.Request{Val: "r"}
		want := &mock.Response{Val: "answer"}
		werr := errors.New("node failed")
		var resp protoreflect.ProtoMessage
		var err error
		done := make(chan struct{})
		go func() { resp, err = nt.cfg[0].RPCCall(ctx, CallData{Message: req, Method: h1Method}); close(done) }()
		deadline := time.Now().Add(3 * time.Second)
		for len(nt.chans[0].sendQ) == 0 && time.Now().Before(deadline) {
			time.Sleep(50 * time.Microsecond)
		}
		r, ok := nt.take(0)
		if !ok || r.msg == nil || r.msg.Message != protoreflect.ProtoMessage(req) || r.msg.Metadata.Method != h1Method {
			return fmt.Errorf("C06: RPCCall queued %v, want the caller's request", r.msg)
		}
		id := r.msg.Metadata.MessageID
		switch oc {
		case 0:
			nt.route(0, id, response{nid: nt.cfg[0].id, msg: want})
		case 1:
			nt.route(0, id, response{nid: nt.cfg[0].id, err: werr})
		case 2:
			time.Sleep(300 * time.Microsecond)
			select {
			case <-done:
				return fmt.Errorf("C02: RPCCall returned without an answer while its context is live")
			default:
			}
			cancel()
		}
		select {
		case <-done:
		case <-time.After(3 * time.Second):
			return fmt.Errorf("C08: RPCCall did not return (case %d)", oc)
		}
		switch oc {
		case 0:
			if err != nil || resp != protoreflect.ProtoMessage(want) {
				return fmt.Errorf("C05: RPCCall returned (%v, %v), want the node's reply", resp, err)
			}
		case 1:
			if err != werr {
				return fmt.Errorf("C07: RPCCall returned error %v, want the node's error", err)
			}
		case 2:
			if !errors.Is(err, context.Canceled) {
				return fmt.Errorf("C08: RPCCall returned %v, want its context's error", err)
			}
		}
		cancel()
		nt.cancel()
	}
	// Unicast: confirmed, never confirmed (context), no-send-waiting
	for oc := 0; oc < 3; oc++ {
		nt := h1NewNet(1)
		ctx, cancel := context.WithCancel(context.Background())
		req := &mock.Request{Val: "u"}
		var opts []CallOption
		if oc == 2 {
			opts = append(opts, WithNoSendWaiting())
		}
		done := make(chan struct{})
		go func() { nt.cfg[0].Unicast(ctx, CallData{Message: req, Method: h1Method}, opts...); close(done) }()
		deadline := time.Now().Add(3 * time.Second)
		for len(nt.chans[0].sendQ) == 0 && time.Now().Before(deadline) {
			time.Sleep(50 * time.Microsecond)
		}
		if oc == 2 {
			select {
			case <-done:
			case <-time.After(3 * time.Second):
				return fmt.Errorf("C06: Unicast with WithNoSendWaiting did not return")
			}
		}
		r, ok := nt.take(0)
		if !ok || r.msg == nil || r.msg.Message != protoreflect.ProtoMessage(req) {
			return fmt.Errorf("C06: Unicast queued %v, want the caller's request", r.msg)
		}
		id := r.msg.Metadata.MessageID
		_, reg := nt.replyChanOf(0, id)
		if reg != (oc != 2) || r.waitForSend() != (oc != 2) {
			return fmt.Errorf("C06/C18: Unicast (no-send-waiting=%v): router registered=%v waitForSend=%v", oc == 2, reg, r.waitForSend())
		}
		switch oc {
		case 0:
			select {
			case <-done:
				return fmt.Errorf("C06: Unicast returned before its send was confirmed")
			default:
			}
			nt.route(0, id, response{nid: nt.cfg[0].id})
		case 1:
			time.Sleep(300 * time.Microsecond)
			select {
			case <-done:
				return fmt.Errorf("C06: Unicast returned before its send was confirmed")
			default:
			}
			cancel()
		}
		select {
		case <-done:
		case <-time.After(3 * time.Second):
			return fmt.Errorf("C08: Unicast did not return (case %d)", oc)
		}
		cancel()
		nt.cancel()
	}
	return nil
}

// program order (C03): a call function queues its requests itself, in node order, before it waits,
// returns or starts its collector. Node 2's send queue is full and nobody drains it: the call
// function must be stuck handing over that request, whatever node 1 answers.
func h1ProgramOrder(kind string) error {
	nt := h1NewNet(2)
	defer nt.cancel()
	nt.chans[1].sendQ = make(chan request) // unbuffered, no reader
	ctx, cancel := context.WithCancel(context.Background())
	defer cancel()
	req := &mock.Request{Val: "order"}
	qfCalls := 0
	returned := make(chan struct{})
	go func() {
		switch kind {
		case "QuorumCall":
			nt.cfg.QuorumCall(ctx, QuorumCallData{Message: req, Method: h1Method, QuorumFunction: func(_ protoreflect.ProtoMessage, r map[uint32]protoreflect.ProtoMessage) (protoreflect.ProtoMessage, bool) {
				qfCalls++
				return &mock.Response{}, true
			}})
		case "AsyncCall":
			nt.cfg.AsyncCall(ctx, QuorumCallData{Message: req, Method: h1Method, QuorumFunction: func(_ protoreflect.ProtoMessage, r map[uint32]protoreflect.ProtoMessage) (protoreflect.ProtoMessage, bool) {
				qfCalls++
				return &mock.Response{}, true
			}})
		case "CorrectableCall":
			nt.cfg.CorrectableCall(ctx, CorrectableCallData{Message: req, Method: h1Method, QuorumFunction: func(_ protoreflect.ProtoMessage, r map[uint32]protoreflect.ProtoMessage) (protoreflect.ProtoMessage, int, bool) {
				qfCalls++
				return &mock.Response{}, 1, true
			}})
		case "Multicast":
			nt.cfg.Multicast(ctx, QuorumCallData{Message: req, Method: h1Method}, WithNoSendWaiting())
		}
		close(returned)
	}()
	deadline := time.Now().Add(3 * time.Second)
	for len(nt.chans[0].sendQ) == 0 && time.Now().Before(deadline) {
		time.Sleep(50 * time.Microsecond)
	}
	r, ok := nt.take(0)
	if !ok {
		return fmt.Errorf("C03: no request was queued for the first node")
	}
	id := r.msg.Metadata.MessageID
	if kind != "Multicast" {
		// node 1 answers at once with what would be a quorum
		if err := nt.route(0, id, response{nid: nt.cfg[0].id, msg: &mock.Response{Val: "fast"}}); err != nil {
			return err
		}
	}
	time.Sleep(2 * time.Millisecond)
	select {
	case <-returned:
		return fmt.Errorf("C03: %s returned although its request for node %d had not been handed to that node's send queue: a later call from the same goroutine could overtake it", kind, nt.cfg[1].id)
	default:
	}
	if qfCalls != 0 && kind == "QuorumCall" {
		return fmt.Errorf("C03: QuorumCall is processing replies although its request for node %d has not been queued yet", nt.cfg[1].id)
	}
	// let the hand-over happen
	select {
	case r2 := <-nt.chans[1].sendQ:
		if r2.msg == nil || r2.msg.Metadata.MessageID != id {
			return fmt.Errorf("C03/C05: the second node was handed a request with another message id")
		}
	case <-time.After(3 * time.Second):
		return fmt.Errorf("C03: the request for node %d was never handed over", nt.cfg[1].id)
	}
	select {
	case <-returned:
	case <-time.After(3 * time.Second):
		return fmt.Errorf("C02: %s did not return after its requests were handed over", kind)
	}
	return nil
}

// streaming correctable call (C09.e/C18): updates of a node arrive repeatedly and raise the level;
// when the call has completed no router of it is left on ANY node of the configuration, and late
// updates are dropped without blocking the node.
func h1CorrectableStream(n, repliers int) error {
	nt := h1NewNet(n)
	defer nt.cancel()
	ctx, cancel := context.WithCancel(context.Background())
	defer cancel()
	req := &mock.Request{Val: "stream"}
	updates := 0
	corr := nt.cfg.CorrectableCall(ctx, CorrectableCallData{Message: req, Method: h1Method, ServerStream: true,
		QuorumFunction: func(_ protoreflect.ProtoMessage, r map[uint32]protoreflect.ProtoMessage) (protoreflect.ProtoMessage, int, bool) {
			updates++
			return &mock.Response{Val: fmt.Sprint("level-", updates)}, updates, updates >= 2*repliers
		}})
	var id uint64
	for i := 0; i < n; i++ {
		r, ok := nt.take(i)
		if !ok {
			return fmt.Errorf("C03/C06: no request was queued for node %d", nt.cfg[i].id)
		}
		id = r.msg.Metadata.MessageID
	}
	// two updates from each of the first `repliers` nodes; the last one completes the call
	for round := 0; round < 2; round++ {
		for i := 0; i < repliers; i++ {
			if err := nt.route(i, id, response{nid: nt.cfg[i].id, msg: &mock.Response{Val: fmt.Sprint("update-", round, "-", i)}}); err != nil {
				return fmt.Errorf("C09: %v", err)
			}
			want := round*repliers + i + 1
			deadline := time.Now().Add(3 * time.Second)
			for {
				_, lvl, _ := corr.Get()
				if lvl == want || time.Now().After(deadline) {
					break
				}
				time.Sleep(50 * time.Microsecond)
			}
			if _, lvl, _ := corr.Get(); lvl != want {
				return fmt.Errorf("C11: after update %d of the stream the published level is %d, want %d", want, lvl, want)
			}
		}
	}
	select {
	case <-corr.Done():
	case <-time.After(3 * time.Second):
		return fmt.Errorf("C11: the streaming call did not complete when its quorum function reported done")
	}
	deadline := time.Now().Add(3 * time.Second)
	left := func() (ids []uint32) {
		for i := 0; i < n; i++ {
			if _, ok := nt.replyChanOf(i, id); ok {
				ids = append(ids, nt.cfg[i].id)
			}
		}
		return
	}
	for len(left()) != 0 && time.Now().Before(deadline) {
		time.Sleep(100 * time.Microsecond)
	}
	if l := left(); len(l) != 0 {
		return fmt.Errorf("C09/C18: the streaming call has completed but its routers are still registered on nodes %v (nodes that had not replied keep a router nobody reads from: their late updates will fill it and block the node's receiver)", l)
	}
	// late updates from every node are dropped without blocking
	for k := 0; k < n+2; k++ {
		for i := 0; i < n; i++ {
			if err := nt.route(i, id, response{nid: nt.cfg[i].id, msg: &mock.Response{Val: "late"}}); err != nil {
				return fmt.Errorf("C09: a late stream update after completion: %v", err)
			}
		}
	}
	return nil
}

// streaming correctable call that ends WITHOUT a quorum (C18.a/C09.e): `erring` of the n nodes answer with a
// handler error over a healthy stream (their routers are not removed by any stream failure), the others
// stream one update each; the call then ends by exhaustion (erring == n) or by its context. Whichever way
// it ended, no router of the call is left on any node, and late updates are dropped without blocking.
func h1CorrectableStreamNoQuorum(n, erring int) error {
	nt := h1NewNet(n)
	defer nt.cancel()
	ctx, cancel := context.WithCancel(context.Background())
	defer cancel()
	corr := nt.cfg.CorrectableCall(ctx, CorrectableCallData{Message: &mock.Request{Val: "stream"}, Method: h1Method, ServerStream: true,
		QuorumFunction: func(_ protoreflect.ProtoMessage, r map[uint32]protoreflect.ProtoMessage) (protoreflect.ProtoMessage, int, bool) {
			return &mock.Response{Val: "partial"}, len(r), false
		}})
	var id uint64
	for i := 0; i < n; i++ {
		r, ok := nt.take(i)
		if !ok {
			return fmt.Errorf("C03/C06: no request was queued for node %d", nt.cfg[i].id)
		}
		id = r.msg.Metadata.MessageID
	}
	for i := 0; i < n; i++ {
		r := response{nid: nt.cfg[i].id, msg: &mock.Response{Val: fmt.Sprint("update-", i)}}
		if i < erring {
			r = response{nid: nt.cfg[i].id, err: fmt.Errorf("handler of node %d failed", nt.cfg[i].id)}
		}
		if err := nt.route(i, id, r); err != nil {
			return fmt.Errorf("C09: %v", err)
		}
	}
	if erring < n {
		time.Sleep(2 * time.Millisecond)
		select {
		case <-corr.Done():
			return fmt.Errorf("C11: the streaming call completed although %d of %d streams are healthy, no quorum was reported and the context is live", n-erring, n)
		default:
		}
		cancel()
	}
	select {
	case <-corr.Done():
	case <-time.After(3 * time.Second):
		return fmt.Errorf("C11/C02: the streaming call did not complete (every stream failed: %v, context ended: %v)", erring == n, erring < n)
	}
	left := func() (ids []uint32) {
		for i := 0; i < n; i++ {
			if _, ok := nt.replyChanOf(i, id); ok {
				ids = append(ids, nt.cfg[i].id)
			}
		}
		return
	}
	deadline := time.Now().Add(3 * time.Second)
	for len(left()) != 0 && time.Now().Before(deadline) {
		time.Sleep(100 * time.Microsecond)
	}
	if l := left(); len(l) != 0 {
		return fmt.Errorf("C18/C09: the streaming call has completed (%d handler errors over healthy streams, ended by exhaustion: %v) but its routers are still registered on nodes %v", erring, erring == n, l)
	}
	for k := 0; k < n+2; k++ {
		for i := 0; i < n; i++ {
			if err := nt.route(i, id, response{nid: nt.cfg[i].id, msg: &mock.Response{Val: "late"}}); err != nil {
				return fmt.Errorf("C09: a late stream update after completion: %v", err)
			}
		}
	}
	return nil
}

// a streaming call under back-pressure (C08): its quorum function is slow, the node streams faster;
// the node's receiver is waiting to hand over the next update when the caller's context ends. The
// call must still complete: whatever it does before completing must not need anything the blocked
// receiver holds. (The hand-over itself blocking is known finding D8; the call's completion is not.)
func h1StreamCancelUnderBackpressure() error {
	for attempt := 0; attempt < 12; attempt++ {
		nt := h1NewNet(1)
		ctx, cancel := context.WithCancel(context.Background())
		gate := make(chan struct{}, 16)
		inQF := make(chan struct{}, 16)
		corr := nt.cfg.CorrectableCall(ctx, CorrectableCallData{Message: &mock.Request{Val: "bp"}, Method: h1Method, ServerStream: true,
			QuorumFunction: func(_ protoreflect.ProtoMessage, r map[uint32]protoreflect.ProtoMessage) (protoreflect.ProtoMessage, int, bool) {
				inQF <- struct{}{}
				<-gate
				return &mock.Response{}, 1, false
			}})
		r, ok := nt.take(0)
		if !ok {
			return fmt.Errorf("C03/C06: no request was queued")
		}
		id := r.msg.Metadata.MessageID
		route := func() {
			go nt.chans[0].routeResponse(id, response{nid: nt.cfg[0].id, msg: &mock.Response{Val: "update"}})
		}
		route() // update 1: taken by the call, which is now inside its quorum function
		select {
		case <-inQF:
		case <-time.After(3 * time.Second):
			return fmt.Errorf("C11: the first stream update was never given to the quorum function")
		}
		route() // update 2 fills the reply channel
		time.Sleep(time.Millisecond)
		route() // update 3: the receiver waits to hand it over
		time.Sleep(time.Millisecond)
		cancel()
		for k := 0; k < 16; k++ {
			gate <- struct{}{} // the quorum function is fast from now on
		}
		select {
		case <-corr.Done():
		case <-time.After(3 * time.Second):
			return fmt.Errorf("C08: a streaming call did not complete within 3 s after its context ended while its node's receiver was waiting to hand over a stream update (attempt %d): something the call does before completing needs what that receiver holds", attempt+1)
		}
		nt.cancel()
	}
	return nil
}

func TestGvcReplay(t *testing.T) {
	want := os.Getenv("GVC_H1")
	run := func(name string) bool { return want == "" || strings.Contains(","+want+",", ","+name+",") }
	maxN := 3
	if os.Getenv("GVC_DEEP") != "" {
		maxN = 4 // thorough tier
	}
	scs := h1Scenarios(maxN)
	count := 0
	for _, s := range scs {
		if run("QuorumCall") {
			count++
			if err := h1QuorumCall(s); err != nil {
				t.Fatalf("GVC-REPLAY: QuorumCall violates its specification.\n  scenario: %v\n  %v", s, err)
			}
		}
		if run("AsyncCall") {
			count++
			if err := h1AsyncCall(s); err != nil {
				t.Fatalf("GVC-REPLAY: AsyncCall violates its specification.\n  scenario: %v\n  %v", s, err)
			}
		}
		if run("CorrectableCall") {
			count++
			if err := h1CorrectableCall(s); err != nil {
				t.Fatalf("GVC-REPLAY: CorrectableCall violates its specification.\n  scenario: %v\n  %v", s, err)
			}
		}
		if run("Multicast") && s.q == 1 {
			onlyConfirm := true
			for i := 0; i < s.n; i++ {
				if s.outcome[i] == 1 {
					onlyConfirm = false
				}
			}
			if onlyConfirm {
				count += 2
				if err := h1Multicast(s, false); err != nil {
					t.Fatalf("GVC-REPLAY: Multicast violates its specification.\n  scenario (replies = the node's sender confirms the send): %v\n  %v", s, err)
				}
				if err := h1Multicast(s, true); err != nil {
					t.Fatalf("GVC-REPLAY: Multicast with WithNoSendWaiting violates its specification.\n  scenario: %v\n  %v", s, err)
				}
			}
		}
	}
	for _, kind := range []string{"QuorumCall", "AsyncCall", "CorrectableCall", "Multicast"} {
		if run(kind) {
			count++
			if err := h1ProgramOrder(kind); err != nil {
				t.Fatalf("GVC-REPLAY: %s violates its specification.\n  scenario: two nodes; the second node's send queue is full and nobody drains it; the first node answers at once\n  %v", kind, err)
			}
		}
	}
	if run("CorrectableCall") {
		for n := 1; n <= 3; n++ {
			for k := 1; k <= n; k++ {
				count++
				if err := h1CorrectableStream(n, k); err != nil {
					t.Fatalf("GVC-REPLAY: CorrectableCall (server stream) violates its specification.\n  scenario: %d nodes, the first %d stream two updates each, the quorum function completes the call on the last one\n  %v", n, k, err)
				}
			}
		}
	}
	if run("CorrectableCall") {
		for n := 1; n <= maxN; n++ {
			for k := 0; k <= n; k++ {
				count++
				if err := h1CorrectableStreamNoQuorum(n, k); err != nil {
					t.Fatalf("GVC-REPLAY: CorrectableCall (server stream) violates its specification.\n  scenario: %d nodes, the first %d answer with a handler error over a healthy stream, the others stream one update; no quorum is reported; the call ends by exhaustion or, if a stream is still healthy, by its context\n  %v", n, k, err)
				}
			}
		}
	}
	if run("CorrectableCall") {
		count++
		if err := h1StreamCancelUnderBackpressure(); err != nil {
			t.Fatalf("GVC-REPLAY: CorrectableCall (server stream) violates its specification.\n  scenario: one node streams three updates while the quorum function is inside its first call; then the caller's context ends and the quorum function becomes fast\n  %v", err)
		}
	}
	if run("NodeCalls") {
		count++
		if err := h1NodeCalls(); err != nil {
			t.Fatalf("GVC-REPLAY: RPCCall/Unicast violate their specification.\n  %v", err)
		}
	}
	t.Logf("GVC-REPLAY-OK scenarios=%d bound=\"1..%d nodes, all skip sets, all reply/error/silent assignments, all arrival orders, all quorum thresholds\"", count, maxN)
}
