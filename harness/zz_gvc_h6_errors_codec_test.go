// gvc-replay pkg=
package gorums

// Witness search H6 (bounded): QuorumCallError.Is/Error, WrapMessage and the wire codec of the
// REAL code. Oracle: C02 (Is compares causes), C07/C13 (a handler's error status reaches the wire
// with its code and message; nil error = OK; plain errors = Unknown + text), C13 (decode(encode(m))
// equals m with the right message type for requests and responses; arbitrary bytes never panic),
// C04/C08 (SendMessage hands exactly its message to exactly its channel, once, or gives up with the
// context's error - and only then - without having sent).

import (
	"context"
	"errors"
	"fmt"
	"testing"
	"time"

	"github.com/relab/gorums/ordering"
	"github.com/relab/gorums/tests/mock"
	"google.golang.org/grpc/codes"
	"google.golang.org/grpc/status"
	"google.golang.org/protobuf/encoding/protowire"
	"google.golang.org/protobuf/proto"
)

func TestGvcReplay(t *testing.T) {
	count := 0
	// QuorumCallError.Is
	other := errors.New("other")
	causes := []error{Incomplete, context.Canceled, context.DeadlineExceeded, other}
	for _, c := range causes {
		e := QuorumCallError{cause: c, errors: []nodeError{{nodeID: 3, cause: other}}, replies: 1}
		for _, target := range causes {
			count++
			if errors.Is(e, target) != (c == target) {
				t.Fatalf("GVC-REPLAY: QuorumCallError.Is violates C02.\n  errors.Is(QuorumCallError{cause: %v}, %v) == %v", c, target, errors.Is(e, target))
			}
			if e.Is(QuorumCallError{cause: target}) != (c == target) {
				t.Fatalf("GVC-REPLAY: QuorumCallError.Is violates C02.\n  QuorumCallError{cause: %v}.Is(QuorumCallError{cause: %v}) == %v", c, target, e.Is(QuorumCallError{cause: target}))
			}
		}
		if e.Error() == "" {
			t.Fatalf("GVC-REPLAY: QuorumCallError.Error returned an empty string")
		}
	}
	// WrapMessage
	type wc struct {
		err  error
		code codes.Code
		text string
	}
	for _, c := range []wc{{nil, codes.OK, ""}, {status.Error(codes.NotFound, "nope"), codes.NotFound, "nope"},
		{status.Error(codes.PermissionDenied, "denied"), codes.PermissionDenied, "denied"}, {errors.New("plain failure"), codes.Unknown, "plain failure"}} {
		count++
		md := &ordering.Metadata{MessageID: 42, Method: "mock.Server.Test"}
		resp := &mock.Response{Val: "r"}
		var m *Message
		func() {
			defer func() {
				if r := recover(); r != nil {
					t.Fatalf("GVC-REPLAY: WrapMessage panicked for error %v: %v", c.err, r)
				}
			}()
			m = WrapMessage(md, resp, c.err)
		}()
		if m == nil || m.Metadata != md || m.Message != resp || md.MessageID != 42 || md.Method != "mock.Server.Test" {
			t.Fatalf("GVC-REPLAY: WrapMessage violates C05/C13: it must wrap exactly the given metadata and response, got %+v", m)
		}
		st := status.FromProto(md.Status)
		if st.Code() != c.code || st.Message() != c.text {
			t.Fatalf("GVC-REPLAY: WrapMessage violates C07/C13.\n  handler error %v is put on the wire as code=%v message=%q, want code=%v message=%q", c.err, st.Code(), st.Message(), c.code, c.text)
		}
	}
	// codec round trip, requests and responses, with and without status
	codec := NewCodec()
	for _, ty := range []gorumsMsgType{requestType, responseType} {
		long := "a handler error message that is much longer than one hundred and twenty-eight bytes, so that the metadata no longer fits a one-byte length prefix: " + fmt.Sprint(make([]int, 40))
		for _, st := range []*status.Status{nil, status.New(codes.NotFound, "nope"), status.New(codes.Internal, ""), status.New(codes.FailedPrecondition, long)} {
			for _, val := range []string{"", "payload", "payload-long-long-long-long-long-long-long-long-long-long-long-long-long-long-long-long-long-long-long-long-long-long-long-long-long"} {
				count++
				// the only method registered in a package this test can import: its request and
				// response type is ordering.Metadata
				md := &ordering.Metadata{MessageID: 1 << 40, Method: "ordering.Gorums.NodeStream"}
				if st != nil {
					md.Status = st.Proto()
				}
				var body proto.Message = &ordering.Metadata{MessageID: 7, Method: val}
				if ty == responseType {
					body = &ordering.Metadata{MessageID: 9, Method: val, Status: status.New(codes.Aborted, val).Proto()}
				}
				if val == "payload" {
					// fields this binary does not know (a newer peer): they must survive the round trip
					body.ProtoReflect().SetUnknown(protowire.AppendVarint(protowire.AppendTag(nil, 1000, protowire.VarintType), 77))
				}
				in := &Message{Metadata: md, Message: body, msgType: ty}
				b, err := codec.Marshal(in)
				if err != nil {
					t.Fatalf("GVC-REPLAY: the codec violates C13: Marshal failed: %v", err)
				}
				out := newMessage(ty)
				if err := codec.Unmarshal(b, out); err != nil {
					t.Fatalf("GVC-REPLAY: the codec violates C13: decoding its own encoding failed: %v", err)
				}
				if !proto.Equal(out.Metadata, md) {
					t.Fatalf("GVC-REPLAY: the codec violates C13.\n  metadata %v decodes as %v", md, out.Metadata)
				}
				wantT := fmt.Sprintf("%T", body)
				if fmt.Sprintf("%T", out.Message) != wantT || !proto.Equal(out.Message, body) {
					t.Fatalf("GVC-REPLAY: the codec violates C13.\n  a %s with payload %q (message type %d) decodes as %T %v", wantT, val, ty, out.Message, out.Message)
				}
			}
		}
	}
	// arbitrary bytes never panic
	var frames [][]byte
	for _, name := range []string{"", "mock.Server.Test", "mock.Request", "mock.Server", "ordering.Metadata", "ordering.Gorums.NodeStream", "ordering.Metadata.MessageID", "no.such.Name", "mock.proto"} {
		mdb, _ := proto.Marshal(&ordering.Metadata{MessageID: 1, Method: name})
		var b []byte
		b = protowire.AppendVarint(b, uint64(len(mdb)))
		b = append(b, mdb...)
		b = protowire.AppendVarint(b, 0)
		frames = append(frames, b, b[:len(b)/2], b[:1], append([]byte{0xff, 0xff, 0xff}, b...), append(append([]byte(nil), b...), 0x05, 0x01))
	}
	frames = append(frames, nil, []byte{}, []byte{0x80}, []byte{5, 1, 2}, []byte{0xff, 0xff, 0xff, 0xff, 0xff, 0xff, 0xff, 0xff, 0xff, 0x01})
	for _, f := range frames {
		for _, ty := range []gorumsMsgType{requestType, responseType, 0} {
			count++
			func() {
				defer func() {
					if r := recover(); r != nil {
						t.Fatalf("GVC-REPLAY: the decoder violates C13: decoding %x (message type %d) panicked: %v", f, ty, r)
					}
				}()
				_ = codec.Unmarshal(f, newMessage(ty))
			}()
		}
	}
	// SendMessage
	{
		msg := &Message{Metadata: &ordering.Metadata{MessageID: 7}}
		other := &Message{Metadata: &ordering.Metadata{MessageID: 8}}
		live := context.Background()
		cancelled, cancel := context.WithCancel(context.Background())
		cancel()
		expired, cancel2 := context.WithDeadline(context.Background(), time.Now().Add(-time.Second))
		defer cancel2()
		// room, live context
		count++
		c := make(chan *Message, 2)
		if err := SendMessage(live, c, msg); err != nil || len(c) != 1 || <-c != msg {
			t.Fatalf("GVC-REPLAY: SendMessage violates C04.\n  channel with room, live context: returned %v, the channel does not hold exactly the message", err)
		}
		// full channel, context over: gives up with the context's error, nothing sent
		for _, ctx := range []context.Context{cancelled, expired} {
			count++
			c = make(chan *Message, 1)
			c <- other
			done := make(chan error, 1)
			go func() { done <- SendMessage(ctx, c, msg) }()
			var err error
			select {
			case err = <-done:
			case <-time.After(3 * time.Second):
				t.Fatalf("GVC-REPLAY: SendMessage violates C08.\n  full channel, context already over (%v): did not return within 3 s", ctx.Err())
			}
			if err == nil || err != ctx.Err() || len(c) != 1 || <-c != other {
				t.Fatalf("GVC-REPLAY: SendMessage violates C08/C04.\n  full channel, context already over (%v): returned %v, want the context's error and nothing sent", ctx.Err(), err)
			}
		}
		// unbuffered channel with a reader
		count++
		u := make(chan *Message)
		got := make(chan *Message, 1)
		go func() { got <- <-u }()
		if err := SendMessage(live, u, msg); err != nil {
			t.Fatalf("GVC-REPLAY: SendMessage violates C04.\n  unbuffered channel with a reader, live context: returned %v", err)
		}
		select {
		case m := <-got:
			if m != msg {
				t.Fatalf("GVC-REPLAY: SendMessage violates C04.\n  the reader received a different message")
			}
		case <-time.After(3 * time.Second):
			t.Fatalf("GVC-REPLAY: SendMessage violates C04.\n  returned nil but the reader received nothing")
		}
		// full channel, the context ends later: returns then, with its error, nothing sent
		count++
		c = make(chan *Message, 1)
		c <- other
		later, cancel3 := context.WithCancel(context.Background())
		res := make(chan error, 1)
		go func() { res <- SendMessage(later, c, msg) }()
		select {
		case err := <-res:
			t.Fatalf("GVC-REPLAY: SendMessage violates C04.\n  full channel, live context: returned %v although nothing could be sent and the context had not ended", err)
		case <-time.After(2 * time.Millisecond):
		}
		cancel3()
		select {
		case err := <-res:
			if err != context.Canceled || len(c) != 1 || <-c != other {
				t.Fatalf("GVC-REPLAY: SendMessage violates C08/C04.\n  full channel, context cancelled while waiting: returned %v", err)
			}
		case <-time.After(3 * time.Second):
			t.Fatalf("GVC-REPLAY: SendMessage violates C08.\n  full channel: did not return within 3 s after its context was cancelled")
		}
		// both possible: either outcome, but a consistent one
		for k := 0; k < 20; k++ {
			count++
			c = make(chan *Message, 1)
			err := SendMessage(cancelled, c, msg)
			if (err == nil) != (len(c) == 1) || (err != nil && err != context.Canceled) {
				t.Fatalf("GVC-REPLAY: SendMessage violates C04/C08.\n  channel with room and a cancelled context: returned %v with %d messages in the channel", err, len(c))
			}
		}
	}
	t.Logf("GVC-REPLAY-OK scenarios=%d bound=\"4 causes x 4 targets; 4 handler errors; 24 round trips; %d byte strings x 3 message kinds; 25 SendMessage runs\"", count, len(frames))
}
