// gvc-replay pkg=
package gorums

// Witness search H9 (bounded, exhaustive, sequential, deterministic): the manager life cycle of the
// REAL code - NewRawManager, AddNode on a non-connecting manager, Close (any number of times).
// Scenario space: pools of 0..4 nodes x every subset of nodes that owns a cancel function (stands for
// "has goroutines to stop") x 1..3 calls of Close x logger on/off x 0..2 extra options.
// Oracle (C12.a, C12.g, C14.f): a new manager has an empty pool and applies every option given, in
// order, exactly once; Close marks EVERY node of the pool closed, calls each node's cancel function
// exactly once however often Close is called, never panics (with or without logger, with nodes that
// never connected), and a node refuses to dial afterwards (calls after Close fail fast instead of
// creating connections nobody closes).

import (
	"bytes"
	"fmt"
	"log"
	"testing"
	"time"
)

type h9Scenario struct {
	nodes   int
	cancels int // bit set: node i owns a cancel function
	closes  int
	logger  bool
	extra   int
}

func (s h9Scenario) String() string {
	return fmt.Sprintf("pool of %d nodes (WithNoConnect), nodes with goroutines to stop: bitset %b, Close called %d time(s), logger=%v, %d further options", s.nodes, s.cancels, s.closes, s.logger, s.extra)
}

func h9Run(s h9Scenario) (err error) {
	defer func() {
		if r := recover(); r != nil {
			err = fmt.Errorf("C12: panic: %v", r)
		}
	}()
	var buf bytes.Buffer
	applied := []int{}
	opts := []ManagerOption{WithNoConnect()}
	if s.logger {
		opts = append(opts, WithLogger(log.New(&buf, "", 0)))
	}
	for k := 0; k < s.extra; k++ {
		k := k
		opts = append(opts, func(o *managerOptions) { applied = append(applied, k); o.sendBuffer = uint(k + 1) })
	}
	m := NewRawManager(opts...)
	if m == nil {
		return fmt.Errorf("C14: NewRawManager returned nil")
	}
	if m.Size() != 0 || len(m.Nodes()) != 0 || len(m.NodeIDs()) != 0 {
		return fmt.Errorf("C14: a new manager has a non-empty pool (size %d)", m.Size())
	}
	if len(applied) != s.extra {
		return fmt.Errorf("C12: %d options given, %d applied", s.extra, len(applied))
	}
	for k, a := range applied {
		if a != k {
			return fmt.Errorf("C12: options applied out of order: %v", applied)
		}
	}
	if !m.opts.noConnect || (s.extra > 0 && m.opts.sendBuffer != uint(s.extra)) || (s.extra == 0 && m.opts.sendBuffer != 0) {
		return fmt.Errorf("C12: the manager's option record does not hold what the options set (noConnect=%v sendBuffer=%d)", m.opts.noConnect, m.opts.sendBuffer)
	}
	if s.logger && m.logger == nil {
		return fmt.Errorf("C12: the logger given with WithLogger is not used")
	}
	cancelled := make([]int, s.nodes)
	var nodes []*RawNode
	for i := 0; i < s.nodes; i++ {
		n, e := NewRawNodeWithID(fmt.Sprintf("127.0.0.1:%d", 9100+i), uint32(10+i))
		if e != nil {
			return fmt.Errorf("setup: %v", e)
		}
		if e := m.AddNode(n); e != nil {
			return fmt.Errorf("C14: AddNode(%d): %v", n.id, e)
		}
		if s.cancels&(1<<i) != 0 {
			i := i
			n.cancel = func() { cancelled[i]++ }
		}
		nodes = append(nodes, n)
	}
	if m.Size() != s.nodes {
		return fmt.Errorf("C14: %d nodes added, Size() = %d", s.nodes, m.Size())
	}
	for c := 0; c < s.closes; c++ {
		m.Close()
	}
	for i, n := range nodes {
		n.connMu.Lock()
		closed := n.closed
		n.connMu.Unlock()
		if !closed {
			return fmt.Errorf("C12: after Close node %d (index %d of %d) is not marked closed: a later dial would create a connection nobody closes", n.id, i, s.nodes)
		}
		want := 0
		if s.cancels&(1<<i) != 0 {
			want = 1
		}
		if cancelled[i] != want {
			return fmt.Errorf("C12: Close called %d time(s): the cancel function of node %d ran %d times, want %d", s.closes, n.id, cancelled[i], want)
		}
		if e := n.dial(); e == nil {
			return fmt.Errorf("C12: node %d dialled successfully after Close", n.id)
		}
		if n.conn != nil {
			return fmt.Errorf("C12: node %d holds a connection after Close", n.id)
		}
	}
	return nil
}

// Close called concurrently (C12: "Close may be called repeatedly and concurrently", and AFTER Close
// returns everything is stopped): while one Close is inside a node's cancel function, a second Close must
// not return - for its caller, too, "Close returned" has to mean "every node is closed". No timing is
// needed for the verdict on correct code: there the second call cannot return before the gate opens.
func h9ConcurrentClose(n int) (err error) {
	defer func() {
		if r := recover(); r != nil {
			err = fmt.Errorf("C12: panic: %v", r)
		}
	}()
	m := NewRawManager(WithNoConnect())
	var nodes []*RawNode
	entered, gate := make(chan struct{}), make(chan struct{})
	for i := 0; i < n; i++ {
		nd, e := NewRawNodeWithID(fmt.Sprintf("127.0.0.1:%d", 9200+i), uint32(20+i))
		if e != nil {
			return fmt.Errorf("setup: %v", e)
		}
		if e := m.AddNode(nd); e != nil {
			return fmt.Errorf("C14: AddNode: %v", e)
		}
		nodes = append(nodes, nd)
	}
	calls := 0
	nodes[0].cancel = func() {
		calls++
		if calls == 1 {
			close(entered)
			<-gate
		}
	}
	first, second := make(chan struct{}), make(chan struct{})
	go func() { m.Close(); close(first) }()
	select {
	case <-entered:
	case <-time.After(3 * time.Second):
		return fmt.Errorf("C12: Close never reached the first node's cancel function")
	}
	go func() { m.Close(); close(second) }()
	early := false
	select {
	case <-second:
		early = true
	case <-time.After(30 * time.Millisecond):
	}
	if early {
		close(gate)
		<-first
		return fmt.Errorf("C12: a second, concurrent Close returned while the first was still closing node %d (of %d): for its caller Close has returned and the nodes are not closed", nodes[0].id, n)
	}
	close(gate)
	for _, c := range []chan struct{}{first, second} {
		select {
		case <-c:
		case <-time.After(3 * time.Second):
			return fmt.Errorf("C12: Close did not return")
		}
	}
	if calls != 1 {
		return fmt.Errorf("C12: two concurrent Close calls ran the cancel function of node %d %d times, want once", nodes[0].id, calls)
	}
	for _, nd := range nodes {
		nd.connMu.Lock()
		closed := nd.closed
		nd.connMu.Unlock()
		if !closed {
			return fmt.Errorf("C12: after two concurrent Close calls node %d is not marked closed", nd.id)
		}
	}
	return nil
}

func TestGvcReplay(t *testing.T) {
	count := 0
	for n := 1; n <= 4; n++ {
		count++
		if err := h9ConcurrentClose(n); err != nil {
			t.Fatalf("GVC-REPLAY: the manager life cycle violates its specification.\n  scenario: pool of %d nodes (WithNoConnect); Close is called, and called again from a second goroutine while the first call is inside the first node's cancel function\n  %v", n, err)
		}
	}
	for n := 0; n <= 4; n++ {
		for cs := 0; cs < 1<<n; cs++ {
			for closes := 1; closes <= 3; closes++ {
				for _, lg := range []bool{false, true} {
					for extra := 0; extra <= 2; extra++ {
						s := h9Scenario{nodes: n, cancels: cs, closes: closes, logger: lg, extra: extra}
						count++
						if err := h9Run(s); err != nil {
							t.Fatalf("GVC-REPLAY: the manager life cycle violates its specification.\n  scenario: %v\n  %v", s, err)
						}
					}
				}
			}
		}
	}
	t.Logf("GVC-REPLAY-OK scenarios=%d bound=\"pools of 0..4 non-connecting nodes; every subset of nodes owning a cancel function; 1..3 Close calls; logger on/off; 0..2 further options; two concurrent Close calls on pools of 1..4\"", count)
}
