// gvc-replay pkg=
package gorums

// Witness search H5 (bounded): OrderedBy(keys...).Sort and MultiSorter.Less of the REAL code with the
// provided keys ID, Port and LastNodeError in every order and multiplicity up to 3 keys, on every list
// of up to 4 nodes drawn from a universe of 8 nodes (2 ids x 2 ports x with/without last error).
// Oracle (C19): the result is a permutation of the input, ordered lexicographically by the keys;
// each key alone is a strict weak ordering.

import (
	"errors"
	"fmt"
	"testing"
)

func h5Universe() []*RawNode {
	var ns []*RawNode
	for id := uint32(1); id <= 2; id++ {
		for port := 1; port <= 2; port++ {
			for e := 0; e < 2; e++ {
				n := &RawNode{id: id, addr: fmt.Sprintf("127.0.0.1:%d", 9000+port), channel: &channel{}}
				if e == 1 {
					n.channel.lastError = errors.New("down")
				}
				ns = append(ns, n)
			}
		}
	}
	return ns
}

func h5Desc(n *RawNode) string {
	return fmt.Sprintf("{id:%d addr:%s lastErr:%v}", n.id, n.addr, n.channel.lastErr())
}

func TestGvcReplay(t *testing.T) {
	u := h5Universe()
	keys := map[string]func(a, b *RawNode) bool{"ID": ID, "Port": Port, "LastNodeError": LastNodeError}
	names := []string{"ID", "Port", "LastNodeError"}
	for _, kn := range names {
		k := keys[kn]
		for _, a := range u {
			if k(a, a) {
				t.Fatalf("GVC-REPLAY: key %s is not a strict weak ordering (C19).\n  %s(a, a) == true for a = %s", kn, kn, h5Desc(a))
			}
			for _, b := range u {
				if k(a, b) && k(b, a) {
					t.Fatalf("GVC-REPLAY: key %s is not a strict weak ordering (C19).\n  %s(a,b) and %s(b,a) both hold for a = %s, b = %s", kn, kn, kn, h5Desc(a), h5Desc(b))
				}
				for _, c := range u {
					if k(a, b) && k(b, c) && !k(a, c) {
						t.Fatalf("GVC-REPLAY: key %s is not transitive (C19) on %s, %s, %s", kn, h5Desc(a), h5Desc(b), h5Desc(c))
					}
					if !k(a, b) && !k(b, a) && !k(b, c) && !k(c, b) && (k(a, c) || k(c, a)) {
						t.Fatalf("GVC-REPLAY: key %s: incomparability is not transitive (C19) on %s, %s, %s", kn, h5Desc(a), h5Desc(b), h5Desc(c))
					}
				}
			}
		}
	}
	var keyLists [][]string
	for _, a := range names {
		keyLists = append(keyLists, []string{a})
		for _, b := range names {
			keyLists = append(keyLists, []string{a, b})
			for _, c := range names {
				keyLists = append(keyLists, []string{a, b, c})
			}
		}
	}
	lex := func(kl []string, a, b *RawNode) bool {
		for _, kn := range kl {
			if keys[kn](a, b) {
				return true
			}
			if keys[kn](b, a) {
				return false
			}
		}
		return false
	}
	count := 0
	var lists [][]int
	var gen func(prefix []int)
	gen = func(prefix []int) {
		if len(prefix) > 0 {
			lists = append(lists, append([]int(nil), prefix...))
		}
		if len(prefix) == 4 {
			return
		}
		for i := range u {
			if len(prefix) == 3 && i%3 != 0 {
				continue // thin out the longest lists
			}
			gen(append(prefix, i))
		}
	}
	gen(nil)
	for _, kl := range keyLists {
		var fs []lessFunc
		for _, kn := range kl {
			fs = append(fs, keys[kn])
		}
		for _, l := range lists {
			count++
			in := make([]*RawNode, len(l))
			for i, x := range l {
				in[i] = u[x]
			}
			out := append([]*RawNode(nil), in...)
			OrderedBy(fs...).Sort(out)
			cnt := map[*RawNode]int{}
			for _, n := range in {
				cnt[n]++
			}
			for _, n := range out {
				cnt[n]--
			}
			for n, c := range cnt {
				if c != 0 {
					t.Fatalf("GVC-REPLAY: OrderedBy(%v).Sort is not a permutation (C19): node %s count off by %d", kl, h5Desc(n), c)
				}
			}
			for i := 0; i+1 < len(out); i++ {
				if lex(kl, out[i+1], out[i]) {
					var ds []string
					for _, n := range in {
						ds = append(ds, h5Desc(n))
					}
					t.Fatalf("GVC-REPLAY: OrderedBy(%v).Sort does not order lexicographically (C19).\n  input: %v\n  positions %d and %d of the result are out of order: %s before %s", kl, ds, i, i+1, h5Desc(out[i]), h5Desc(out[i+1]))
				}
			}
			ms := &MultiSorter{nodes: in, less: fs}
			for i := range in {
				for j := range in {
					if ms.Less(i, j) != lex(kl, in[i], in[j]) {
						t.Fatalf("GVC-REPLAY: MultiSorter.Less with keys %v (C19): Less(%s, %s) == %v, the lexicographic combination of the keys says %v", kl, h5Desc(in[i]), h5Desc(in[j]), ms.Less(i, j), !ms.Less(i, j))
					}
				}
			}
		}
	}
	t.Logf("GVC-REPLAY-OK scenarios=%d bound=\"key lists of length <= 3 over ID/Port/LastNodeError; node lists of length <= 4 over 8 nodes\"", count)
}
