// gvc-replay pkg=
package gorums

// Witness search H4 (bounded): the Correctable object of the REAL code driven directly - every
// sequence of up to 4 operations out of Watch(l) and set(level, done) with levels 0..3 that respects
// set's contract (levels never decrease, nothing after completion). Oracle (C11): a watch channel is
// closed exactly when its level has been reached or the call completed; Get returns the last
// published triple; Done closes exactly at completion; set never panics.

import (
	"errors"
	"fmt"
	"os"
	"testing"

	"github.com/relab/gorums/tests/mock"
)

type h4Op struct {
	watch bool
	level int
	done  bool
}

func (o h4Op) String() string {
	if o.watch {
		return fmt.Sprintf("Watch(%d)", o.level)
	}
	return fmt.Sprintf("set(level=%d, done=%v)", o.level, o.done)
}

func h4Closed(c <-chan struct{}) bool {
	select {
	case <-c:
		return true
	default:
		return false
	}
}

func h4Run(ops []h4Op) (err error) {
	defer func() {
		if r := recover(); r != nil {
			err = fmt.Errorf("panic: %v", r)
		}
	}()
	c := &Correctable{level: LevelNotSet, donech: make(chan struct{}, 1)}
	type w struct {
		level int
		ch    <-chan struct{}
	}
	var ws []w
	level, done := LevelNotSet, false
	var last *mock.Response
	var lastErr error
	for k, o := range ops {
		if o.watch {
			ch := c.Watch(o.level)
			if ch == nil {
				return fmt.Errorf("step %d %v returned nil", k+1, o)
			}
			ws = append(ws, w{o.level, ch})
		} else {
			last = &mock.Response{Val: fmt.Sprintf("v%d", k)}
			lastErr = nil
			if o.done && o.level == 3 {
				lastErr = errors.New("final error")
			}
			c.set(last, o.level, lastErr, o.done)
			level, done = o.level, o.done
		}
		for i, x := range ws {
			want := x.level <= level || done
			if h4Closed(x.ch) != want {
				return fmt.Errorf("after step %d (%v): watch #%d for level %d is closed=%v, want %v (published level %d, completed %v)", k+1, o, i+1, x.level, h4Closed(x.ch), want, level, done)
			}
		}
		if h4Closed(c.Done()) != done {
			return fmt.Errorf("after step %d (%v): Done() closed=%v, want %v", k+1, o, h4Closed(c.Done()), done)
		}
		r, l, e := c.Get()
		if l != level || (last != nil && r != last) || (last == nil && r != nil) || e != lastErr {
			return fmt.Errorf("after step %d (%v): Get() = (%v, %d, %v), want (%v, %d, %v)", k+1, o, r, l, e, last, level, lastErr)
		}
	}
	return nil
}

func TestGvcReplay(t *testing.T) {
	var all []h4Op
	for l := 0; l <= 3; l++ {
		all = append(all, h4Op{watch: true, level: l}, h4Op{level: l}, h4Op{level: l, done: true})
	}
	count := 0
	maxLen := 4
	if os.Getenv("GVC_DEEP") != "" {
		maxLen = 5 // thorough tier
	}
	var rec func(prefix []h4Op, level int, done bool)
	rec = func(prefix []h4Op, level int, done bool) {
		if len(prefix) > 0 {
			count++
			if err := h4Run(prefix); err != nil {
				t.Fatalf("GVC-REPLAY: Correctable violates C11.\n  scenario: new correctable at LevelNotSet, then %v\n  %v", prefix, err)
			}
		}
		if len(prefix) == maxLen {
			return
		}
		for _, o := range all {
			if !o.watch && (done || o.level < level) {
				continue // outside set's contract
			}
			nl, nd := level, done
			if !o.watch {
				nl, nd = o.level, o.done
			}
			rec(append(append([]h4Op(nil), prefix...), o), nl, nd)
		}
	}
	rec(nil, LevelNotSet, false)
	t.Logf("GVC-REPLAY-OK scenarios=%d bound=\"every contract-respecting sequence of <= %d Watch/set operations over levels 0..3\"", count, maxLen)
}
