// gvc-replay pkg=
package gorums

// Witness search H8 (bounded): the server side of the REAL code - orderingServer.NodeStream with
// registered handlers, ServerCtx.Release, SendMessage - driven over an in-memory
// ordering.Gorums_NodeStreamServer. The handlers are puppets that mimic what generated code does
// around a user handler (read the request's metadata when the user code has returned, wrap, send,
// release on return) and are gated by the test, so every scenario is deterministic.
// Oracle: C04 (one unreleased handler per connection; Release early, late, repeatedly, from helper
// goroutines; replies of released handlers still carry their own call's id; other connections are
// independent), C03 (handlers start in arrival order), C10 (connect callback once, before the first
// request, with the stream's context).
//
// Bound: up to 4 requests per connection, every assignment of {releases early, releases on return}
// to them, one or two connections.

import (
	"context"
	"fmt"
	"io"
	"sync"
	"testing"
	"time"

	"github.com/relab/gorums/ordering"
	"github.com/relab/gorums/tests/mock"
	"google.golang.org/grpc"
)

type h8Stream struct {
	grpc.ServerStream
	ctx  context.Context
	in   chan *Message // requests for RecvMsg (nil = end of stream)
	out  chan *Message // replies handed to SendMsg
	recv chan struct{} // signalled when RecvMsg is entered
}

func (s *h8Stream) Send(*ordering.Metadata) error     { return nil }
func (s *h8Stream) Recv() (*ordering.Metadata, error) { return nil, io.EOF }
func (s *h8Stream) Context() context.Context          { return s.ctx }
func (s *h8Stream) SendMsg(m interface{}) error       { s.out <- m.(*Message); return nil }
func (s *h8Stream) RecvMsg(m interface{}) error {
	select {
	case s.recv <- struct{}{}:
	default:
	}
	select {
	case r := <-s.in:
		if r == nil {
			return io.EOF
		}
		out := m.(*Message)
		out.Metadata = r.Metadata
		out.Message = r.Message
		return nil
	case <-s.ctx.Done():
		return s.ctx.Err()
	}
}

type h8Event struct {
	kind string // enter | released | exit
	id   uint64
}

type h8Conn struct {
	stream *h8Stream
	cancel context.CancelFunc
	done   chan error
}

type h8World struct {
	srv    *orderingServer
	mu     sync.Mutex
	events map[*h8Stream][]h8Event
	early  map[uint64]bool
	gates  map[uint64]chan struct{} // the handler finishes when its gate is closed
	cbs    []context.Context
}

func (w *h8World) log(s *h8Stream, k string, id uint64) {
	w.mu.Lock()
	w.events[s] = append(w.events[s], h8Event{k, id})
	w.mu.Unlock()
}

func h8Wait(what string, c <-chan struct{}) error {
	select {
	case <-c:
		return nil
	case <-time.After(3 * time.Second):
		return fmt.Errorf("%s", what)
	}
}

func h8New() *h8World {
	w := &h8World{events: map[*h8Stream][]h8Event{}, early: map[uint64]bool{}, gates: map[uint64]chan struct{}{}}
	opts := &serverOptions{buffer: 4, connectCallback: func(ctx context.Context) {
		w.mu.Lock()
		w.cbs = append(w.cbs, ctx)
		w.mu.Unlock()
	}}
	w.srv = newOrderingServer(opts)
	// what generated code registers: run the user handler, then wrap the reply using the request's
	// metadata, send it, and release on return
	w.srv.handlers["mock.Server.Test"] = func(ctx ServerCtx, in *Message, finished chan<- *Message) {
		defer ctx.Release()
		s := ctx.Context.Value(h8Key{}).(*h8Stream)
		id := in.Metadata.MessageID
		req := in.Message.(*mock.Request)
		w.log(s, "enter", id)
		w.mu.Lock()
		early, gate := w.early[id], w.gates[id]
		w.mu.Unlock()
		if early {
			// release early, repeatedly and from a helper goroutine as well
			ctx.Release()
			var wg sync.WaitGroup
			wg.Add(1)
			go func() { defer wg.Done(); ctx.Release() }()
			ctx.Release()
			wg.Wait()
			w.log(s, "released", id)
		}
		<-gate
		resp := &mock.Response{Val: "reply-to-" + req.Val}
		w.log(s, "exit", id)
		SendMessage(ctx, finished, WrapMessage(in.Metadata, resp, nil))
	}
	return w
}

type h8Key struct{}

func (w *h8World) connect() *h8Conn {
	ctx, cancel := context.WithCancel(context.Background())
	s := &h8Stream{in: make(chan *Message, 8), out: make(chan *Message, 8), recv: make(chan struct{}, 1)}
	s.ctx = context.WithValue(ctx, h8Key{}, s)
	c := &h8Conn{stream: s, cancel: cancel, done: make(chan error, 1)}
	go func() { c.done <- w.srv.NodeStream(s) }()
	return c
}

func (w *h8World) eventsOf(s *h8Stream) []h8Event {
	w.mu.Lock()
	defer w.mu.Unlock()
	return append([]h8Event(nil), w.events[s]...)
}

func (w *h8World) entered(s *h8Stream, id uint64) bool {
	for _, e := range w.eventsOf(s) {
		if e.kind == "enter" && e.id == id {
			return true
		}
	}
	return false
}

func (w *h8World) waitEntered(s *h8Stream, id uint64) bool {
	deadline := time.Now().Add(3 * time.Second)
	for !w.entered(s, id) && time.Now().Before(deadline) {
		time.Sleep(50 * time.Microsecond)
	}
	return w.entered(s, id)
}

// scenario: n requests on one connection; mask bit i = request i releases early. A second
// connection with a handler that never finishes must not be affected and must not affect it.
func h8Scenario(n int, mask int) error {
	w := h8New()
	other := w.connect()
	defer other.cancel()
	w.mu.Lock()
	w.gates[900] = make(chan struct{}) // never closed during the scenario: this handler never releases
	w.mu.Unlock()
	other.stream.in <- &Message{Metadata: &ordering.Metadata{MessageID: 900, Method: "mock.Server.Test"}, Message: &mock.Request{Val: "blocker"}}
	if !w.waitEntered(other.stream, 900) {
		return fmt.Errorf("C04: the handler of the other connection never started")
	}
	c := w.connect()
	defer c.cancel()
	if err := h8Wait("C10: the server never reads from the new connection", c.stream.recv); err != nil {
		return err
	}
	w.mu.Lock()
	ncb := 0
	for _, ctx := range w.cbs {
		if ctx == c.stream.ctx {
			ncb++
		}
	}
	w.mu.Unlock()
	if ncb != 1 {
		return fmt.Errorf("C10: the connect callback ran %d times with this connection's context before the first request, want once", ncb)
	}
	ids := make([]uint64, n)
	for i := 0; i < n; i++ {
		ids[i] = uint64(100 + i)
		w.mu.Lock()
		w.early[ids[i]] = mask&(1<<i) != 0
		w.gates[ids[i]] = make(chan struct{})
		w.mu.Unlock()
	}
	// a request for a method nobody registered is dropped and must not hold up the connection
	c.stream.in <- &Message{Metadata: &ordering.Metadata{MessageID: 99, Method: "mock.Server.Unregistered"}, Message: &mock.Request{Val: "nobody"}}
	// all requests arrive at once
	for i := 0; i < n; i++ {
		c.stream.in <- &Message{Metadata: &ordering.Metadata{MessageID: ids[i], Method: "mock.Server.Test"}, Message: &mock.Request{Val: fmt.Sprint(ids[i])}}
	}
	// handlers are finished in reverse order of arrival where the protocol allows it: a handler that
	// released early is finished only after all later ones that can start have started
	var open []int // started, not finished
	next := 0
	start := func() error {
		// the next request may start iff every started handler has released (early) or finished
		if !w.waitEntered(c.stream, ids[next]) {
			return fmt.Errorf("C04: the handler for request %d did not start although every earlier handler has released or returned", ids[next])
		}
		open = append(open, next)
		next++
		return nil
	}
	if err := start(); err != nil {
		return err
	}
	for len(open) > 0 {
		last := open[len(open)-1]
		if mask&(1<<last) != 0 && next < n {
			if err := start(); err != nil {
				return err
			}
			continue
		}
		if next < n {
			// the newest handler has not released: the next request must wait
			time.Sleep(400 * time.Microsecond)
			if w.entered(c.stream, ids[next]) {
				return fmt.Errorf("C04: the handler for request %d started while the handler for request %d had neither released nor returned", ids[next], ids[last])
			}
		}
		// finish the newest open handler and collect its reply
		w.mu.Lock()
		close(w.gates[ids[last]])
		w.mu.Unlock()
		open = open[:len(open)-1]
		select {
		case m := <-c.stream.out:
			if m.Metadata == nil || m.Metadata.MessageID != ids[last] {
				return fmt.Errorf("C04/C05: the reply of the handler for request %d went out under message id %d", ids[last], m.Metadata.GetMessageID())
			}
			if r, ok := m.Message.(*mock.Response); !ok || r.Val != "reply-to-"+fmt.Sprint(ids[last]) {
				return fmt.Errorf("C04/C05: the reply sent under id %d is %v", ids[last], m.Message)
			}
		case <-time.After(3 * time.Second):
			return fmt.Errorf("C04: the reply of the handler for request %d never reached the connection", ids[last])
		}
		if len(open) == 0 && next < n {
			if err := start(); err != nil {
				return err
			}
		}
	}
	// arrival order
	var order []uint64
	for _, e := range w.eventsOf(c.stream) {
		if e.kind == "enter" {
			order = append(order, e.id)
		}
	}
	if len(order) != n {
		return fmt.Errorf("C04: %d handlers started for %d requests (started, in order: %v)", len(order), n, order)
	}
	for i := range order {
		if order[i] != ids[i] {
			return fmt.Errorf("C03: handlers started in order %v, requests arrived in order %v", order, ids)
		}
	}
	if len(order) != n {
		return fmt.Errorf("C04: %d handlers started for %d requests", len(order), n)
	}
	// the other connection's handler is still the only one there, and unaffected
	if evs := w.eventsOf(other.stream); len(evs) != 1 {
		return fmt.Errorf("C04: events on the other connection: %v", evs)
	}
	// and none of this connection's replies went to the other client
	select {
	case m := <-other.stream.out:
		return fmt.Errorf("C04/C05: a reply (message id %d) of this connection's handlers was written to ANOTHER client's stream", m.Metadata.GetMessageID())
	default:
	}
	c.stream.in <- nil
	select {
	case <-c.done:
	case <-time.After(3 * time.Second):
		return fmt.Errorf("C12: NodeStream did not return at the end of the stream")
	}
	return nil
}

func TestGvcReplay(t *testing.T) {
	count := 0
	for n := 1; n <= 4; n++ {
		for mask := 0; mask < 1<<n; mask++ {
			count++
			if err := h8Scenario(n, mask); err != nil {
				var desc []string
				for i := 0; i < n; i++ {
					if mask&(1<<i) != 0 {
						desc = append(desc, "releases-early")
					} else {
						desc = append(desc, "releases-on-return")
					}
				}
				t.Fatalf("GVC-REPLAY: the server violates its specification.\n  scenario: %d requests arrive on one connection, their handlers: %v; handlers are finished newest first; a second connection has a handler that never releases\n  %v", n, desc, err)
			}
		}
	}
	t.Logf("GVC-REPLAY-OK scenarios=%d bound=\"1..4 requests per connection, every early/late release assignment, two connections\"", count)
}
