// gvc-replay pkg=
package gorums

// Witness search H2 (bounded): one node's channel of the REAL code - newChannel, enqueue,
// routeResponse, deleteRouter, cancelPendingMsgs, sendMsg, sender, receiver, reconnect and the
// node's context - with its real sender and receiver goroutines running over an in-memory
// ordering.GorumsClient that plays the network. The script is deterministic: every phase waits
// until the goroutines are parked again before the next one starts (this also keeps the script
// off the interleaving of known finding D9). The oracle covers properties C05, C07, C08, C09,
// C10 (metadata and context of re-established streams), C12 and C18 for this node.
//
// Bound: one node; the fixed script of phases below (replies with right and wrong ids, handler
// error status, crossed replies of concurrent calls, stream failure with calls pending, send
// failure, blocked send with an impatient caller, one-way calls with and without send-waiting,
// router-table operations on ids {1,2,3}, Close).

import (
	"context"
	"errors"
	"fmt"
	"io"
	"runtime"
	"strings"
	"sync"
	"testing"
	"time"

	"github.com/relab/gorums/ordering"
	"github.com/relab/gorums/tests/mock"
	"google.golang.org/grpc"
	"google.golang.org/grpc/backoff"
	"google.golang.org/grpc/codes"
	"google.golang.org/grpc/metadata"
	"google.golang.org/grpc/status"
	"google.golang.org/protobuf/reflect/protoreflect"
)

type h2Frame struct {
	id     uint64
	msg    protoreflect.ProtoMessage
	status *status.Status
	err    error // RecvMsg fails with this error
}

type h2Stream struct {
	grpc.ClientStream
	ctx     context.Context
	no      int
	sent    chan *Message // messages handed to SendMsg (after the gate)
	in      chan h2Frame  // frames for RecvMsg
	entered chan struct{} // signalled each time RecvMsg is entered
	mu      sync.Mutex
	failSend error         // next SendMsg fails with this error and breaks the stream
	gate    chan struct{}  // if set, SendMsg waits for it (or for the stream's context)
	broken  chan struct{}
}

func (s *h2Stream) Send(*ordering.Metadata) error     { return nil }
func (s *h2Stream) Recv() (*ordering.Metadata, error) { return nil, nil }
func (s *h2Stream) Context() context.Context          { return s.ctx }

func (s *h2Stream) breakNow() {
	s.mu.Lock()
	defer s.mu.Unlock()
	select {
	case <-s.broken:
	default:
		close(s.broken)
	}
}

func (s *h2Stream) SendMsg(m interface{}) error {
	s.mu.Lock()
	gate, fail := s.gate, s.failSend
	s.failSend = nil
	s.mu.Unlock()
	if gate != nil {
		select {
		case <-gate:
		case <-s.ctx.Done():
			s.breakNow()
			return status.FromContextError(s.ctx.Err()).Err()
		}
	}
	if fail != nil {
		s.breakNow()
		return fail
	}
	select {
	case <-s.broken:
		return io.EOF
	case <-s.ctx.Done():
		return status.FromContextError(s.ctx.Err()).Err()
	default:
	}
	s.sent <- m.(*Message)
	return nil
}

func (s *h2Stream) RecvMsg(m interface{}) error {
	select {
	case s.entered <- struct{}{}:
	default:
	}
	select {
	case f := <-s.in:
		if f.err != nil {
			s.breakNow()
			return f.err
		}
		out := m.(*Message)
		out.Metadata = &ordering.Metadata{MessageID: f.id, Method: h2Method}
		if f.status != nil {
			out.Metadata.Status = f.status.Proto()
		}
		out.Message = f.msg
		return nil
	case <-s.broken:
		return io.ErrUnexpectedEOF
	case <-s.ctx.Done():
		return status.FromContextError(s.ctx.Err()).Err()
	}
}

type h2Client struct {
	mu      sync.Mutex
	streams []*h2Stream
	created chan *h2Stream
	down    bool // NodeStream fails: the node is unreachable
}

func (c *h2Client) NodeStream(ctx context.Context, _ ...grpc.CallOption) (ordering.Gorums_NodeStreamClient, error) {
	c.mu.Lock()
	defer c.mu.Unlock()
	if c.down {
		return nil, status.Error(codes.Unavailable, "node unreachable")
	}
	s := &h2Stream{ctx: ctx, no: len(c.streams) + 1, sent: make(chan *Message, 16), in: make(chan h2Frame, 16), entered: make(chan struct{}, 1), broken: make(chan struct{})}
	c.streams = append(c.streams, s)
	c.created <- s
	return s, nil
}

const h2Method = "mock.Server.Test"

type h2World struct {
	mgr    *RawManager
	node   *RawNode
	ch     *channel
	client *h2Client
	cur    *h2Stream
}

func h2Wait(what string, c <-chan struct{}) error {
	select {
	case <-c:
		return nil
	case <-time.After(3 * time.Second):
		return errors.New(what)
	}
}

func h2Goroutines(substr string) int {
	buf := make([]byte, 4<<20)
	buf = buf[:runtime.Stack(buf, true)]
	n := 0
	for _, g := range strings.Split(string(buf), "\n\n") {
		if strings.Contains(g, substr) {
			n++
		}
	}
	return n
}

func h2Settle(substr string, want int) bool {
	deadline := time.Now().Add(2 * time.Second)
	for h2Goroutines(substr) != want && time.Now().Before(deadline) {
		time.Sleep(200 * time.Microsecond)
	}
	return h2Goroutines(substr) == want
}

func (w *h2World) routers() int {
	w.ch.responseMut.Lock()
	defer w.ch.responseMut.Unlock()
	return len(w.ch.responseRouters)
}

// nextStream waits for the channel to re-establish its stream and for the receiver to park on it.
func (w *h2World) nextStream(after string) error {
	select {
	case s := <-w.client.created:
		w.cur = s
	case <-time.After(3 * time.Second):
		return fmt.Errorf("C09/C10: %s: the channel did not re-establish the node stream although the node is reachable", after)
	}
	if err := h2Wait("C09: "+after+": the receiver never reads from the re-established stream", w.cur.entered); err != nil {
		return err
	}
	md, _ := metadata.FromOutgoingContext(w.cur.ctx)
	if got := md.Get("general"); len(got) != 1 || got[0] != "g" {
		return fmt.Errorf("C10: %s: stream %d carries general metadata %v, want [g]", after, w.cur.no, got)
	}
	if got := md.Get("node"); len(got) != 1 || got[0] != fmt.Sprint(w.node.id) {
		return fmt.Errorf("C10: %s: stream %d carries per-node metadata %v, want [%d]", after, w.cur.no, got, w.node.id)
	}
	return nil
}

type h2Call struct {
	done chan struct{}
	resp protoreflect.ProtoMessage
	err  error
	req  *mock.Request
}

func (w *h2World) rpc(ctx context.Context, tag string) *h2Call {
	c := &h2Call{done: make(chan struct{}), req: &mock.Request{Val: tag}}
	go func() {
		c.resp, c.err = w.node.RPCCall(ctx, CallData{Message: c.req, Method: h2Method})
		close(c.done)
	}()
	return c
}

// sentFor waits for the request of call c to reach the stream and returns its message id.
func (w *h2World) sentFor(c *h2Call) (uint64, error) {
	select {
	case m := <-w.cur.sent:
		if m.Message != protoreflect.ProtoMessage(c.req) || m.Metadata == nil || m.Metadata.Method != h2Method {
			return 0, fmt.Errorf("C06: the stream was handed %v, want the caller's request %q", m, c.req.Val)
		}
		return m.Metadata.MessageID, nil
	case <-time.After(3 * time.Second):
		return 0, fmt.Errorf("C09: the request %q never reached the node's stream", c.req.Val)
	}
}

func (c *h2Call) pending() bool {
	time.Sleep(300 * time.Microsecond)
	select {
	case <-c.done:
		return false
	default:
		return true
	}
}

func h2Script() (phase string, err error) {
	md := metadata.New(map[string]string{"general": "g"})
	mgr := NewRawManager(WithNoConnect(), WithMetadata(md),
		WithPerNodeMetadata(func(id uint32) metadata.MD { return metadata.New(map[string]string{"node": fmt.Sprint(id)}) }),
		WithBackoff(backoff.Config{BaseDelay: time.Millisecond, Multiplier: 1.1, Jitter: 0, MaxDelay: 4 * time.Millisecond}))
	node := &RawNode{id: 7, addr: "127.0.0.1:7007", mgr: mgr}
	baseSender, baseReceiver, baseWatch := h2Goroutines("(*channel).sender"), h2Goroutines("(*channel).receiver"), h2Goroutines("(*channel).sendMsg.func")
	ch := newChannel(node) // real constructor: starts the real sender, parent context from newContext
	node.channel = ch
	w := &h2World{mgr: mgr, node: node, ch: ch, client: &h2Client{created: make(chan *h2Stream, 8)}}
	if ch.parentCtx == nil || cap(ch.sendQ) != 0 || ch.node != node || ch.responseRouters == nil {
		return "setup", fmt.Errorf("C12: newChannel built %+v", ch)
	}
	// what newNodeStream does, without a grpc connection
	ch.gorumsClient = w.client
	ch.streamMut.Lock()
	ch.streamCtx, ch.cancelStream = context.WithCancel(ch.parentCtx)
	ch.gorumsStream, _ = ch.gorumsClient.NodeStream(ch.streamCtx)
	ch.streamMut.Unlock()
	ch.connEstablished.set()
	go ch.receiver()
	if err := w.nextStream("setup"); err != nil {
		return "setup", err
	}
	bg := context.Background()

	phase = "P1 a reply under a foreign id is ignored, the right one is delivered"
	c1 := w.rpc(bg, "p1")
	id1, err := w.sentFor(c1)
	if err != nil {
		return phase, err
	}
	w.cur.in <- h2Frame{id: id1 + 1000, msg: &mock.Response{Val: "foreign"}}
	if !c1.pending() {
		return phase, fmt.Errorf("C05: a reply carrying message id %d completed the call with id %d (got %v, %v)", id1+1000, id1, c1.resp, c1.err)
	}
	r1 := &mock.Response{Val: "answer-1"}
	w.cur.in <- h2Frame{id: id1, msg: r1}
	if err := h2Wait("C05: the reply under the call's own id never completed it", c1.done); err != nil {
		return phase, err
	}
	if c1.err != nil || c1.resp != protoreflect.ProtoMessage(r1) {
		return phase, fmt.Errorf("C05: the call returned (%v, %v), want the reply sent under its id", c1.resp, c1.err)
	}
	if n := w.routers(); n != 0 {
		return phase, fmt.Errorf("C18: %d router(s) left after the call completed", n)
	}

	phase = "P2 a handler's error status reaches the caller"
	c2 := w.rpc(bg, "p2")
	id2, err := w.sentFor(c2)
	if err != nil {
		return phase, err
	}
	if id2 == id1 {
		return phase, fmt.Errorf("C05: two calls used the same message id %d", id1)
	}
	w.cur.in <- h2Frame{id: id2, msg: &mock.Response{}, status: status.New(codes.NotFound, "no such thing")}
	if err := h2Wait("C07: the error reply never completed the call", c2.done); err != nil {
		return phase, err
	}
	if status.Code(c2.err) != codes.NotFound || !strings.Contains(fmt.Sprint(c2.err), "no such thing") {
		return phase, fmt.Errorf("C07: the call returned error %v, want the handler's status NotFound/\"no such thing\"", c2.err)
	}

	phase = "P3 crossed replies of two concurrent calls reach their own calls"
	c3a := w.rpc(bg, "p3a")
	id3a, err := w.sentFor(c3a)
	if err != nil {
		return phase, err
	}
	c3b := w.rpc(bg, "p3b")
	id3b, err := w.sentFor(c3b)
	if err != nil {
		return phase, err
	}
	ra, rb := &mock.Response{Val: "for-a"}, &mock.Response{Val: "for-b"}
	w.cur.in <- h2Frame{id: id3b, msg: rb}
	w.cur.in <- h2Frame{id: id3a, msg: ra}
	if err := h2Wait("C05: call b never completed", c3b.done); err != nil {
		return phase, err
	}
	if err := h2Wait("C05: call a never completed", c3a.done); err != nil {
		return phase, err
	}
	if c3a.resp != protoreflect.ProtoMessage(ra) || c3b.resp != protoreflect.ProtoMessage(rb) {
		return phase, fmt.Errorf("C05: call a got %v and call b got %v", c3a.resp, c3b.resp)
	}

	phase = "P4 the stream fails while two calls wait for replies"
	c4a := w.rpc(bg, "p4a")
	if _, err := w.sentFor(c4a); err != nil {
		return phase, err
	}
	c4b := w.rpc(bg, "p4b")
	if _, err := w.sentFor(c4b); err != nil {
		return phase, err
	}
	w.cur.in <- h2Frame{err: io.ErrUnexpectedEOF}
	for _, c := range []*h2Call{c4a, c4b} {
		if err := h2Wait("C07: a call waiting for a node whose stream failed was left waiting", c.done); err != nil {
			return phase, err
		}
		if c.resp != nil || status.Code(c.err) != codes.Unavailable {
			return phase, fmt.Errorf("C07: the waiting call returned (%v, %v), want an unavailable-type error and no reply", c.resp, c.err)
		}
	}
	if err := w.nextStream("after the stream failed"); err != nil {
		return phase, err
	}
	if n := w.routers(); n != 0 {
		return phase, fmt.Errorf("C07/C18: %d router(s) left after the stream failure was reported", n)
	}

	phase = "P5 the node is usable on the re-established stream"
	c5 := w.rpc(bg, "p5")
	id5, err := w.sentFor(c5)
	if err != nil {
		return phase, err
	}
	r5 := &mock.Response{Val: "answer-5"}
	w.cur.in <- h2Frame{id: id5, msg: r5}
	if err := h2Wait("C09: the call on the re-established stream never completed", c5.done); err != nil {
		return phase, err
	}
	if c5.err != nil || c5.resp != protoreflect.ProtoMessage(r5) {
		return phase, fmt.Errorf("C09: the call returned (%v, %v)", c5.resp, c5.err)
	}

	phase = "P6 a failed send is reported exactly once, as an error"
	w.cur.mu.Lock()
	w.cur.failSend = io.EOF
	w.cur.mu.Unlock()
	mine := make(chan response, 4)
	md6 := &ordering.Metadata{MessageID: mgr.getMsgID(), Method: h2Method}
	ch.enqueue(request{ctx: bg, msg: &Message{Metadata: md6, Message: &mock.Request{Val: "p6"}}}, mine, false)
	select {
	case r := <-mine:
		if r.err == nil || r.msg != nil || r.nid != node.id {
			return phase, fmt.Errorf("C07: the failed send was reported as %+v, want one error naming node %d and no reply", r, node.id)
		}
	case <-time.After(3 * time.Second):
		return phase, fmt.Errorf("C07: the request whose send failed was never answered")
	}
	if err := w.nextStream("after the send failed"); err != nil {
		return phase, err
	}
	time.Sleep(500 * time.Microsecond)
	if len(mine) != 0 {
		return phase, fmt.Errorf("C07: the node reported the same request %d more time(s): %+v", len(mine), <-mine)
	}
	if n := w.routers(); n != 0 {
		return phase, fmt.Errorf("C18: %d router(s) left after the failed send", n)
	}
	if !h2Settle("(*channel).sendMsg.func", baseWatch) {
		return phase, fmt.Errorf("C18: %d goroutine(s) started by sendMsg are still alive after its sends have completed", h2Goroutines("(*channel).sendMsg.func")-baseWatch)
	}

	phase = "P7 a send blocked in the stream: the impatient caller is released by its own context, the waiting call is failed, the node recovers"
	c7w := w.rpc(bg, "p7-waiting")
	if _, err := w.sentFor(c7w); err != nil {
		return phase, err
	}
	gate := make(chan struct{})
	w.cur.mu.Lock()
	w.cur.gate = gate
	w.cur.mu.Unlock()
	ctx7, cancel7 := context.WithCancel(bg)
	c7 := w.rpc(ctx7, "p7-impatient")
	time.Sleep(time.Millisecond) // the sender is now inside SendMsg
	if !c7.pending() {
		return phase, fmt.Errorf("C02: the call returned (%v, %v) while its send is still in progress", c7.resp, c7.err)
	}
	cancel7()
	if err := h2Wait("C08: the call did not return after its context was cancelled", c7.done); err != nil {
		return phase, err
	}
	if !errors.Is(c7.err, context.Canceled) && status.Code(c7.err) != codes.Canceled {
		return phase, fmt.Errorf("C08: the cancelled call returned %v", c7.err)
	}
	if err := h2Wait("C07: the stream was reset for an impatient caller, but the other call waiting on this node was left waiting without an error", c7w.done); err != nil {
		return phase, err
	}
	if c7w.err == nil {
		return phase, fmt.Errorf("C07: the other waiting call returned a reply %v from a stream that was reset", c7w.resp)
	}
	if err := w.nextStream("after the stream was reset for an impatient caller"); err != nil {
		return phase, err
	}
	c8 := w.rpc(bg, "p8")
	id8, err := w.sentFor(c8)
	if err != nil {
		return phase, err
	}
	w.cur.in <- h2Frame{id: id8, msg: &mock.Response{Val: "answer-8"}}
	if err := h2Wait("C09: the node is stuck after a cancelled send", c8.done); err != nil {
		return phase, err
	}
	if c8.err != nil {
		return phase, fmt.Errorf("C09: the call after the reset returned %v", c8.err)
	}
	if n := w.routers(); n != 0 {
		return phase, fmt.Errorf("C18: %d router(s) left after the cancelled call", n)
	}

	phase = "P8 the node is unreachable for a while: requests are answered with an unavailable-type error naming the node; it is used again as soon as it is back"
	w.client.mu.Lock()
	w.client.down = true
	w.client.mu.Unlock()
	w.cur.in <- h2Frame{err: io.ErrUnexpectedEOF}
	time.Sleep(2 * time.Millisecond) // the receiver has noticed and retries in the background
	mine8 := make(chan response, 4)
	md8 := &ordering.Metadata{MessageID: mgr.getMsgID(), Method: h2Method}
	ch.enqueue(request{ctx: bg, msg: &Message{Metadata: md8, Message: &mock.Request{Val: "p8-down"}}}, mine8, false)
	select {
	case r := <-mine8:
		if status.Code(r.err) != codes.Unavailable || r.msg != nil || r.nid != node.id {
			return phase, fmt.Errorf("C07: a request for an unreachable node was answered %+v, want one unavailable-type error naming node %d", r, node.id)
		}
	case <-time.After(3 * time.Second):
		return phase, fmt.Errorf("C07: a request for an unreachable node was never answered")
	}
	time.Sleep(500 * time.Microsecond)
	if len(mine8) != 0 {
		return phase, fmt.Errorf("C07: the unreachable node was reported %d more time(s) for one request", len(mine8))
	}
	if n := w.routers(); n != 0 {
		return phase, fmt.Errorf("C18: %d router(s) left after the request for an unreachable node", n)
	}
	w.client.mu.Lock()
	w.client.down = false
	w.client.mu.Unlock()
	if err := w.nextStream("after the node became reachable again"); err != nil {
		return phase, err
	}
	c8b := w.rpc(bg, "p8-back")
	id8b, err := w.sentFor(c8b)
	if err != nil {
		return phase, err
	}
	w.cur.in <- h2Frame{id: id8b, msg: &mock.Response{Val: "answer-8b"}}
	if err := h2Wait("C09: the call after the node came back never completed", c8b.done); err != nil {
		return phase, err
	}
	if c8b.err != nil {
		return phase, fmt.Errorf("C09: the call after the node came back returned %v", c8b.err)
	}

	phase = "P9 one-way calls wait for the send exactly when asked to"
	gate9 := make(chan struct{})
	w.cur.mu.Lock()
	w.cur.gate = gate9
	w.cur.mu.Unlock()
	uDone := make(chan struct{})
	uReq := &mock.Request{Val: "unicast"}
	go func() { node.Unicast(bg, CallData{Message: uReq, Method: h2Method}); close(uDone) }()
	time.Sleep(time.Millisecond)
	select {
	case <-uDone:
		return phase, fmt.Errorf("C06: Unicast returned before its message was handed to the stream")
	default:
	}
	close(gate9)
	if err := h2Wait("C06: Unicast did not return after its message was sent", uDone); err != nil {
		return phase, err
	}
	if m := <-w.cur.sent; m.Message != protoreflect.ProtoMessage(uReq) {
		return phase, fmt.Errorf("C06: Unicast sent %v", m)
	}
	if n := w.routers(); n != 0 {
		return phase, fmt.Errorf("C18: %d router(s) left after a confirmed Unicast", n)
	}
	w.cur.mu.Lock()
	w.cur.gate = nil
	w.cur.mu.Unlock()
	nDone := make(chan struct{})
	nReq := &mock.Request{Val: "unicast-nowait"}
	go func() { node.Unicast(bg, CallData{Message: nReq, Method: h2Method}, WithNoSendWaiting()); close(nDone) }()
	if err := h2Wait("C06: Unicast with WithNoSendWaiting did not return", nDone); err != nil {
		return phase, err
	}
	select {
	case m := <-w.cur.sent:
		if m.Message != protoreflect.ProtoMessage(nReq) {
			return phase, fmt.Errorf("C06: Unicast sent %v", m)
		}
	case <-time.After(3 * time.Second):
		return phase, fmt.Errorf("C06: the one-way message never reached the stream")
	}
	if n := w.routers(); n != 0 {
		return phase, fmt.Errorf("C18: %d router(s) left after a one-way call without send-waiting", n)
	}

	phase = "P10 router table: entries are independent, unknown ids are dropped, cancelPendingMsgs answers and removes everything"
	chans := map[uint64]chan response{1: make(chan response, 1), 2: make(chan response, 1), 3: make(chan response, 1)}
	ch.responseMut.Lock()
	for id, c := range chans {
		ch.responseRouters[1000+id] = responseRouter{c: c}
	}
	ch.responseMut.Unlock()
	ch.routeResponse(1002, response{nid: node.id, msg: &mock.Response{Val: "two"}})
	ch.routeResponse(1999, response{nid: node.id})
	if len(chans[1]) != 0 || len(chans[2]) != 1 || len(chans[3]) != 0 {
		return phase, fmt.Errorf("C05: routeResponse(1002) delivered to channels 1001:%d 1002:%d 1003:%d", len(chans[1]), len(chans[2]), len(chans[3]))
	}
	if n := w.routers(); n != 2 {
		return phase, fmt.Errorf("C05/C18: %d routers after answering one of three, want 2", n)
	}
	ch.deleteRouter(1003)
	ch.routeResponse(1003, response{nid: node.id})
	if len(chans[3]) != 0 {
		return phase, fmt.Errorf("C05: a deleted router still received a response")
	}
	ch.cancelPendingMsgs()
	if len(chans[1]) != 1 {
		return phase, fmt.Errorf("C07: cancelPendingMsgs did not answer the pending router")
	}
	if r := <-chans[1]; status.Code(r.err) != codes.Unavailable || r.nid != node.id || r.msg != nil {
		return phase, fmt.Errorf("C07: cancelPendingMsgs answered %+v, want an unavailable-type error naming node %d", r, node.id)
	}
	if n := w.routers(); n != 0 {
		return phase, fmt.Errorf("C07/C18: %d router(s) left after cancelPendingMsgs", n)
	}

	phase = "P11 Close: the goroutines end, later requests are answered with an error at once"
	last := w.cur
	if node.cancel == nil {
		return phase, fmt.Errorf("C12: the node has no cancel function")
	}
	if err := node.close(); err != nil {
		return phase, fmt.Errorf("C12: close returned %v", err)
	}
	if !h2Settle("(*channel).sender", baseSender) || !h2Settle("(*channel).receiver", baseReceiver) {
		return phase, fmt.Errorf("C12: after Close %d sender and %d receiver goroutine(s) of the node are still running", h2Goroutines("(*channel).sender")-baseSender, h2Goroutines("(*channel).receiver")-baseReceiver)
	}
	select {
	case <-last.ctx.Done():
	default:
		return phase, fmt.Errorf("C10/C12: the context of the node's last stream is still live after Close: it is not derived from the node's context")
	}
	cl := w.rpc(bg, "after-close")
	if err := h2Wait("C12: a call on a closed node did not return", cl.done); err != nil {
		return phase, err
	}
	if cl.err == nil {
		return phase, fmt.Errorf("C12: a call on a closed node returned a reply")
	}
	if n := w.routers(); n != 0 {
		return phase, fmt.Errorf("C18: %d router(s) left after a call on a closed node", n)
	}
	if !h2Settle("(*channel).sendMsg.func", baseWatch) {
		return phase, fmt.Errorf("C18: %d goroutine(s) started by sendMsg are still alive at the end", h2Goroutines("(*channel).sendMsg.func")-baseWatch)
	}
	return "", nil
}

func TestGvcReplay(t *testing.T) {
	const rounds = 5
	for r := 0; r < rounds; r++ {
		if phase, err := h2Script(); err != nil {
			t.Fatalf("GVC-REPLAY: the node channel violates its specification.\n  scenario: real sender and receiver over an in-memory stream; phase %q (round %d)\n  %v", phase, r+1, err)
		}
	}
	t.Logf("GVC-REPLAY-OK scenarios=%d bound=\"one node; the scripted phases P1..P11, %d rounds\"", 11*rounds, rounds)
}
