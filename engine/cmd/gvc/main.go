package main

import (
	"fmt"
	"os"

	"gvc/eng"
)

func main() {
	if len(os.Args) < 2 {
		fmt.Fprintln(os.Stderr, "usage: gvc check <property> [--tier quick|thorough] | verify <func>... | list | replay <file> | selftest")
		os.Exit(2)
	}
	os.Exit(eng.Main(os.Args[1:]))
}
