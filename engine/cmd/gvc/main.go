package main

import (
	"fmt"

	_ "golang.org/x/tools/go/packages"
	_ "golang.org/x/tools/go/ssa"
	_ "golang.org/x/tools/go/ssa/ssautil"
)

func main() { fmt.Println("gvc") }
