package main

import (
	"fmt"
	"os"
	"strings"
	"time"

	"golang.org/x/tools/go/packages"
	"golang.org/x/tools/go/ssa"
	"golang.org/x/tools/go/ssa/ssautil"
)

func main() {
	t0 := time.Now()
	cfg := &packages.Config{Mode: packages.LoadAllSyntax, Dir: "/repo", BuildFlags: []string{"-tags=verif", "-mod=mod"}, Env: append(os.Environ(), "GOFLAGS=-mod=mod", "GOPROXY=off", "GOSUMDB=off", "GOTOOLCHAIN=local")}
	pkgs, err := packages.Load(cfg, "github.com/relab/gorums")
	if err != nil {
		panic(err)
	}
	fmt.Fprintln(os.Stderr, "load", time.Since(t0))
	prog, spkgs := ssautil.AllPackages(pkgs, ssa.NaiveForm|ssa.InstantiateGenerics)
	for _, p := range spkgs {
		if p != nil && p.Pkg.Path() == "github.com/relab/gorums" {
			p.Build()
		}
	}
	fmt.Fprintln(os.Stderr, "ssa", time.Since(t0))
	_ = prog
	for fn := range ssautil.AllFunctions(prog) {
		if fn.Pkg == nil || fn.Pkg.Pkg.Path() != "github.com/relab/gorums" {
			continue
		}
		for _, a := range os.Args[1:] {
			if strings.Contains(fn.String(), a) {
				fn.WriteTo(os.Stdout)
			}
		}
	}
}
