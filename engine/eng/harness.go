package eng

import (
	"bytes"
	"context"
	"encoding/json"
	"fmt"
	"os"
	"os/exec"
	"path/filepath"
	"regexp"
	"strings"
	"sync"
	"time"
)

// A harness is a bounded witness search on the REAL code: an in-package Go test kept in
// /verif/harness, injected through `go test -overlay` (nothing is written to the repository),
// which drives a family of functions through an enumerated set of small scenarios and compares
// the observed behaviour with a reference model of the properties. It serves two purposes:
//
//  1. replay: when an obligation of a function of the family fails, the search looks for a
//     concrete failing input on the real code; if it finds one the VIOLATION line carries it;
//  2. bounded stand-in: when the contract of a function no longer matches the code (contract
//     drift: a name, an anchor or a whole function is gone) its obligations cannot be generated
//     and the function is outside the verifier's reach; the bounded search then stands in for
//     the proof - a failing scenario is a violation, none means "undecided, bounded check
//     passed" (labelled bounded in the evidence, never counted as proved).
type harness struct {
	Name   string
	File   string // below /verif/harness
	Pkg    string // package directory below the repository root
	Funcs  *regexp.Regexp
	Filter func(fn string) map[string]string // environment for the test
	Bound  string
	// StandIn: the search is an exhaustive small-scope enumeration of a sequential, deterministic
	// family and may stand in for a proof under contract drift. The scripted concurrency harnesses
	// (H2, H8) only serve as witness searches for failed obligations.
	StandIn bool
	// Props: the properties whose statements the harness' reference model covers; it stands in only
	// when one of these is being checked (H3 says nothing about connections a refused node keeps).
	Props []string
}

var harnesses = []*harness{
	{Name: "H1", File: "zz_gvc_h1_calls_test.go", Pkg: "", StandIn: true, Props: []string{"C01", "C02", "C03", "C05", "C06", "C07", "C08", "C09", "C11", "C18"},
		Funcs: regexp.MustCompile(`^\(RawConfiguration\)\.(QuorumCall|AsyncCall|handleAsyncCall|CorrectableCall|handleCorrectableCall|Multicast)$|^\(\*RawNode\)\.(Unicast|RPCCall)$|^getCallOptions$|^\(\*Async\)\.(Get|Done)$`),
		Filter: func(fn string) map[string]string {
			v := ""
			switch {
			case strings.Contains(fn, "QuorumCall"):
				v = "QuorumCall"
			case strings.Contains(fn, "Async"):
				v = "AsyncCall"
			case strings.Contains(fn, "Correctable"):
				v = "CorrectableCall"
			case strings.Contains(fn, "Multicast"):
				v = "Multicast"
			case strings.Contains(fn, "Unicast"), strings.Contains(fn, "RPCCall"):
				v = "NodeCalls"
			case fn == "getCallOptions":
				v = "Multicast,NodeCalls"
			}
			return map[string]string{"GVC_H1": v}
		},
		Bound: "configurations of 1..3 nodes; every skip set of the per-node function; every reply/error/silent assignment; every arrival order; every quorum threshold"},
	{Name: "H3", File: "zz_gvc_h3_config_test.go", Pkg: "", StandIn: true, Props: []string{"C14"},
		Funcs: regexp.MustCompile(`^\((addConfig|nodeIDs|nodeList|nodeIDMap|addNodes)\)\.newConfig$|^\(RawConfiguration\)\.(Except|WithoutNodes|And|WithNewNodes|NodeIDs|Nodes|Size|Equal|contains)$|^\(\*RawManager\)\.(Node|AddNode|NodeIDs|Nodes|Size|sortNodes)$|^NewRawNode(WithID)?$|^NewRawConfiguration$`),
		Bound: "pools of <= 4 nodes; all pairs of sub-configurations (tight and with spare capacity); id lists of length <= 3 over 6 ids; address maps and lists over 3 addresses"},
	{Name: "H4", File: "zz_gvc_h4_correctable_test.go", Pkg: "", StandIn: true, Props: []string{"C11"},
		Funcs: regexp.MustCompile(`^\(\*Correctable\)\.(set|Watch|Get|Done)$`),
		Bound: "every contract-respecting sequence of <= 4 Watch/set operations over levels 0..3"},
	{Name: "H5", File: "zz_gvc_h5_sorters_test.go", Pkg: "", StandIn: true, Props: []string{"C19", "C14"},
		Funcs: regexp.MustCompile(`^\(\*MultiSorter\)\.(Less|Len|Swap|Sort)$|^OrderedBy$|^lemma C19\.|^var (ID|Port|LastNodeError)$|^(ID|Port|LastNodeError)$`),
		Bound: "key lists of length <= 3 over ID/Port/LastNodeError; node lists of length <= 4 over a universe of 8 nodes"},
	{Name: "H6", File: "zz_gvc_h6_errors_codec_test.go", Pkg: "", StandIn: true, Props: []string{"C02", "C04", "C05", "C06", "C07", "C08", "C13"},
		Funcs: regexp.MustCompile(`^\(QuorumCallError\)\.(Is|Error)$|^WrapMessage$|^SendMessage$|^\(Codec\)\.|^\(\*Codec\)\.|^newMessage$|^NewCodec$`),
		Bound: "4 causes x 4 targets; 4 handler errors; 24 codec round trips; 50 byte strings x 3 message kinds; SendMessage over room/full/unbuffered channels x live/ended/ending contexts"},
	{Name: "H9", File: "zz_gvc_h9_manager_test.go", Pkg: "", StandIn: true, Props: []string{"C12", "C14"},
		Funcs: regexp.MustCompile(`^\(\*RawManager\)\.(Close|Close\$1|closeNodeConns)$|^NewRawManager$|^newManagerOptions$`),
		Bound: "pools of 0..4 non-connecting nodes; every subset of nodes owning a cancel function; 1..3 Close calls; logger on/off; 0..2 further options; two concurrent Close calls on pools of 1..4 (the second must not return while the first is still closing)"},
	{Name: "H2", File: "zz_gvc_h2_channel_test.go", Pkg: "",
		Funcs: regexp.MustCompile(`^\(\*channel\)\.|^newChannel$|^\(\*RawNode\)\.(newContext|close)$`),
		Bound: "one node; real sender and receiver over an in-memory stream; the scripted phases P1..P11, 5 rounds"},
	{Name: "H8", File: "zz_gvc_h8_server_test.go", Pkg: "",
		Funcs: regexp.MustCompile(`^\(\*orderingServer\)\.NodeStream|^\(\*ServerCtx\)\.Release$|^SendMessage$`),
		Bound: "1..4 requests per connection, every early/late release assignment, two connections"},
}

func harnessFor(fn string) *harness {
	for _, h := range harnesses {
		if h.Funcs.MatchString(fn) {
			return h
		}
	}
	return nil
}

type harnessResult struct {
	Harness    string `json:"harness"`
	Bound      string `json:"bound"`
	Test       string `json:"test_file"`
	Env        string `json:"environment,omitempty"`
	Command    string `json:"command"`
	Reproduced bool   `json:"reproduced"`
	Passed     bool   `json:"passed"`
	Scenarios  string `json:"scenarios,omitempty"`
	Failure    string `json:"failing_scenario,omitempty"`
	Output     string `json:"output,omitempty"`
	Seconds    float64 `json:"seconds"`
}

var (
	harnessMu    sync.Mutex
	harnessCache = map[string]*harnessResult{}
)

var scenarioRe = regexp.MustCompile(`GVC-REPLAY-OK scenarios=(\d+)`)

// runHarness runs (once per process and environment) a harness on the working tree, with the
// in-memory source overlay of a self-test mutant if there is one.
func runHarness(h *harness, fn string, overlay map[string][]byte) *harnessResult {
	env := map[string]string{}
	if h.Filter != nil {
		env = h.Filter(fn)
	}
	var envs []string
	for k, v := range env {
		envs = append(envs, k+"="+v)
	}
	key := h.Name + "|" + strings.Join(envs, ",") + "|" + RepoDir
	harnessMu.Lock()
	if r, ok := harnessCache[key]; ok {
		harnessMu.Unlock()
		return r
	}
	harnessMu.Unlock()
	t0 := time.Now()
	res := &harnessResult{Harness: h.Name, Bound: h.Bound, Test: filepath.Join(VerifDir, "harness", h.File), Env: strings.Join(envs, " ")}
	tmp, err := os.MkdirTemp("", "gvcharness")
	if err != nil {
		res.Output = err.Error()
		return res
	}
	defer os.RemoveAll(tmp)
	target := filepath.Join(RepoDir, h.Pkg, "zz_gvc_replay_test.go")
	repl := map[string]string{target: res.Test}
	i := 0
	for p, content := range overlay {
		if !strings.HasSuffix(p, ".go") {
			continue
		}
		f := filepath.Join(tmp, fmt.Sprintf("src%d.go", i))
		i++
		os.WriteFile(f, content, 0o644)
		repl[p] = f
	}
	ob, _ := json.Marshal(map[string]map[string]string{"Replace": repl})
	ovf := filepath.Join(tmp, "overlay.json")
	os.WriteFile(ovf, ob, 0o644)
	ctx, cancel := context.WithTimeout(context.Background(), 240*time.Second)
	defer cancel()
	cmd := exec.CommandContext(ctx, "go", "test", "-overlay", ovf, "-vet=off", "-count=1", "-timeout", "220s", "-run", "TestGvcReplay", "-v", ".")
	cmd.Dir = filepath.Join(RepoDir, h.Pkg)
	cmd.Env = append(os.Environ(), offlineEnv...)
	cmd.Env = append(cmd.Env, envs...)
	var out bytes.Buffer
	cmd.Stdout = &out
	cmd.Stderr = &out
	err = cmd.Run()
	o := out.String()
	res.Seconds = time.Since(t0).Seconds()
	res.Command = fmt.Sprintf("cd %s && %s go test -overlay <{%s -> %s}> -vet=off -count=1 -run TestGvcReplay -v .", cmd.Dir, strings.Join(envs, " "), target, res.Test)
	if m := scenarioRe.FindStringSubmatch(o); m != nil && err == nil {
		res.Passed = true
		res.Scenarios = m[1]
	} else if err != nil && (strings.Contains(o, "GVC-REPLAY:") || strings.Contains(o, "panic:") || strings.Contains(o, "fatal error:")) && !strings.Contains(o, "[build failed]") && !strings.Contains(o, "[setup failed]") {
		res.Reproduced = true
		if k := strings.Index(o, "GVC-REPLAY:"); k >= 0 {
			res.Failure = truncate(strings.TrimSpace(o[k:]), 1500)
			if e := strings.Index(res.Failure, "\n--- FAIL"); e >= 0 {
				res.Failure = res.Failure[:e]
			}
		} else if k := strings.Index(o, "panic:"); k >= 0 {
			res.Failure = "the real code panicked during the witness search: " + truncate(o[k:], 1200)
		} else if k := strings.Index(o, "fatal error:"); k >= 0 {
			res.Failure = "the real code crashed during the witness search: " + truncate(o[k:], 1200)
		}
	}
	res.Output = truncate(o, 6000)
	harnessMu.Lock()
	harnessCache[key] = res
	harnessMu.Unlock()
	return res
}

// thoroughHarnesses: in the thorough tier the bounded witness searches of a property's families
// also run on the unchanged tree, as an independent (bounded, so labelled) cross-check of the
// contracts themselves: D20 and D21 were found this way - the code violated the property and the
// contract of the time had encoded the code's behaviour.
var thoroughHarnesses = map[string][]string{
	"C01": {"H1"}, "C02": {"H1", "H6"}, "C03": {"H1", "H8"}, "C04": {"H8"}, "C05": {"H1", "H2"}, "C06": {"H1", "H2"},
	"C07": {"H1", "H2", "H6"}, "C08": {"H1", "H2"}, "C09": {"H1", "H2"}, "C10": {"H2", "H8"}, "C11": {"H1", "H4"},
	"C12": {"H2", "H9"}, "C13": {"H6"}, "C14": {"H3", "H9"}, "C18": {"H1", "H2"}, "C19": {"H5"},
}

// runThoroughHarnesses returns one structural obligation per harness. A scripted concurrency
// harness (not StandIn) must fail three times in a row before it is believed.
func runThoroughHarnesses(id string) (*FuncResult, []*harnessResult) {
	res := &FuncResult{Name: "bounded witness searches (thorough tier)", HasContract: true}
	var out []*harnessResult
	for _, name := range thoroughHarnesses[id] {
		for _, h := range harnesses {
			if h.Name != name {
				continue
			}
			var hr *harnessResult
			tries := 1
			if !h.StandIn {
				tries = 3
			}
			for k := 0; k < tries; k++ {
				harnessMu.Lock()
				for key := range harnessCache {
					if strings.HasPrefix(key, h.Name+"|") {
						delete(harnessCache, key)
					}
				}
				harnessMu.Unlock()
				hr = runHarness(&harness{Name: h.Name, File: h.File, Pkg: h.Pkg, Bound: h.Bound + " (thorough: GVC_DEEP=1 enlarges the scope where the harness supports it: H1 1..4 nodes, H4 sequences of 5)",
					Filter: func(string) map[string]string { return map[string]string{"GVC_DEEP": "1"} }}, "", nil)
				if !hr.Reproduced {
					break
				}
			}
			out = append(out, hr)
			ok := !hr.Reproduced
			detail := fmt.Sprintf("bounded (%s): %s scenarios passed on the real code", h.Bound, hr.Scenarios)
			if hr.Reproduced {
				detail = "the bounded witness search found a failing input on the real code: " + hr.Failure
			} else if !hr.Passed {
				detail = "the witness search could not be run on this tree (not counted): " + truncate(hr.Output, 300)
			}
			res.Obligs = append(res.Obligs, &Oblig{Name: "bounded/" + h.Name + "[" + h.File + "]", Kind: "bounded", Func: res.Name, Structural: true, StructOK: ok, Detail: detail, Props: []string{id}})
		}
	}
	return res, out
}
