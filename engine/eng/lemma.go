package eng

import (
	"fmt"
	"go/types"
	"regexp"
	"runtime/debug"
	"strings"
)

// lemmaStatement evaluates a lemma's statement in env; quantified variables are
// declared as constants (for proving) or bound by forall (for use).
func (x *Exec) lemmaTerm(st *State, lm *Lemma, closed bool) Term {
	env := &Env{x: x, st: st, old: st, binds: map[string]Bound{}, pkg: x.pkgPath(), noLocals: true}
	var qs []string
	var guards []Term
	for _, v := range lm.Vars {
		fs := strings.SplitN(strings.TrimSpace(v), " ", 2)
		if len(fs) != 2 {
			x.specFail(lm.C, "lemma variable %q needs a sort or type", v)
		}
		name, ts := fs[0], strings.TrimSpace(fs[1])
		var sort string
		var gt types.Type
		if isSMTSort(ts) {
			sort = ts
		} else {
			gt = x.resolveType(env, lm.C, ts)
			sort = x.D.SortOf(gt)
		}
		var t Term
		if closed {
			t = mk(sort, "lv!"+name)
			qs = append(qs, fmt.Sprintf("(%s %s)", t.S, sort))
		} else {
			t = x.D.Const("lv_"+mangle(lm.Name)+"_"+name, sort)
		}
		if gt != nil {
			if closed {
				// used as a hypothesis: the statement is about every reference, allocated now or later
				switch types.Unalias(gt).Underlying().(type) {
				case *types.Pointer, *types.Map, *types.Chan:
					guards = append(guards, Ge(t, Zero))
					env.binds[name] = Bound{V: t, T: gt}
					continue
				}
			}
			top := st.top
			guards = append(guards, x.D.WF(t, gt, top, 0))
		}
		env.binds[name] = Bound{V: t, T: gt}
	}
	// with(statement, t1, t2, ...): instantiation triggers when the lemma is used as a hypothesis
	cl := lm.C
	var trigs []string
	if cl.E.Kind == "call" && cl.E.Op == "with" && len(cl.E.Args) >= 2 {
		for _, te := range cl.E.Args[1:] {
			tv, tt := x.eval(env, cl, te)
			trigs = append(trigs, ":pattern ("+x.asTerm(env, cl, tv, tt, "").S+")")
		}
		c2 := *cl
		c2.E = cl.E.Args[0]
		cl = &c2
	}
	body := x.evalBool(env, cl)
	body = Implies(And(guards...), body)
	if closed && len(qs) > 0 {
		if len(trigs) > 0 {
			return mk(SBool, fmt.Sprintf("(forall (%s) (! %s %s))", strings.Join(qs, " "), body.S, strings.Join(trigs, " ")))
		}
		return mk(SBool, fmt.Sprintf("(forall (%s) %s)", strings.Join(qs, " "), body.S))
	}
	return body
}

func (w *World) lemmaByName(name string) *Lemma {
	for _, l := range w.CS.Lemmas {
		if l.Name == name {
			return l
		}
	}
	return nil
}

// VerifyLemmas proves every non-trusted lemma (optionally only those tagged with prop).
func (s *Session) VerifyLemmas(filter func(*Lemma) bool) []*FuncResult {
	var out []*FuncResult
	for _, lm := range s.CS.Lemmas {
		if lm.Trusted {
			continue
		}
		if filter != nil && !filter(lm) {
			continue
		}
		out = append(out, s.verifyLemma(lm))
	}
	return out
}

func (s *Session) verifyLemma(lm *Lemma) (res *FuncResult) {
	name := "lemma " + lm.Name
	x := NewExec(s.W, nil, nil, name)
	res = &FuncResult{Name: name, HasContract: true}
	defer func() {
		if r := recover(); r != nil {
			if se, ok := r.(specErr); ok {
				res.Err = "contract error: " + se.msg
			} else {
				res.Err = fmt.Sprintf("engine error: %v\n%s", r, debug.Stack())
			}
		}
		x.finish(res)
		for _, o := range res.Obligs {
			o.Props = nil
			set := map[string]bool{}
			for _, t := range lm.Tags {
				p := t
				if i := strings.Index(t, "."); i >= 0 {
					p = t[:i]
				}
				set[p] = true
			}
			o.Props = sortedKeys(set)
		}
	}()
	st := x.blankState()
	st.Assume(Gt(st.top, IntLit(1)))
	x.entry = st.clone()
	x.assumeAxioms(st)
	for _, u := range lm.Uses {
		if l2 := s.W.lemmaByName(u); l2 != nil {
			st.Assume(x.lemmaTerm(st, l2, true))
		} else {
			x.specFail(lm.C, "unknown lemma %s", u)
		}
	}
	goal := x.lemmaTerm(st, lm, false)
	o := x.oblig("statement", "lemma", lm.Tags, 0)
	o.PosStr = fmt.Sprintf("%s:%d", shortPath(lm.C.File), lm.C.Line)
	o.Src = lm.C.Text
	x.Assert(st, o, goal)
	return res
}

func (lm *Lemma) pureSMT() bool {
	for _, v := range lm.Vars {
		fs := strings.SplitN(strings.TrimSpace(v), " ", 2)
		if len(fs) != 2 || !isSMTSort(strings.TrimSpace(fs[1])) {
			return false
		}
	}
	return true
}

// assumeAxioms adds the heap-dependent trusted axioms to a state; axioms over SMT sorts
// only are added by relevantAxioms once the spec functions they talk about are in use.
func (x *Exec) assumeAxioms(st *State) {
	for _, lm := range x.CS.Lemmas {
		if lm.Trusted && !lm.pureSMT() {
			func() {
				// axioms about types of another package do not apply here
				defer func() {
					if r := recover(); r != nil {
						if _, ok := r.(specErr); !ok {
							panic(r)
						}
					}
				}()
				st.Assume(x.lemmaTerm(st, lm, true))
			}()
		}
	}
}

var identCallRe = regexp.MustCompile(`([A-Za-z_][A-Za-z0-9_]*)\(`)

// relevantAxioms asserts (globally) every pure axiom that mentions a spec function
// declared in this context; iterated to a fixpoint.
func (x *Exec) relevantAxioms() {
	done := map[*Lemma]bool{}
	for changed := true; changed; {
		changed = false
		for _, lm := range x.CS.Lemmas {
			if !lm.Trusted || !lm.pureSMT() || done[lm] {
				continue
			}
			rel := false
			for _, m := range identCallRe.FindAllStringSubmatch(lm.C.Text, -1) {
				if x.specDeclared["sf_"+m[1]] {
					rel = true
				}
			}
			if !rel {
				continue
			}
			done[lm] = true
			changed = true
			st := x.blankState()
			t := x.lemmaTerm(st, lm, true)
			x.D.Raw("(assert " + t.S + ")")
		}
	}
}
