package eng

import (
	"bytes"
	"context"
	"fmt"
	"os"
	"os/exec"
	"path/filepath"
	"sort"
	"strings"
	"sync"
	"sync/atomic"
	"time"
)

// Term is an SMT-LIB term with its sort.
type Term struct {
	S    string
	Sort string
}

const (
	SInt   = "Int"
	SBool  = "Bool"
	SReal  = "Real"
	SStr   = "Str"
	SIface = "Iface"
	SSlice = "Slice"
)

func ArrSort(k, v string) string { return "(Array " + k + " " + v + ")" }

// arrParts splits an "(Array K V)" sort into K and V.
func arrParts(s string) (string, string, bool) {
	if !strings.HasPrefix(s, "(Array ") {
		return "", "", false
	}
	body := s[len("(Array ") : len(s)-1]
	depth := 0
	for i := 0; i < len(body); i++ {
		switch body[i] {
		case '(':
			depth++
		case ')':
			depth--
		case ' ':
			if depth == 0 {
				return body[:i], body[i+1:], true
			}
		}
	}
	return "", "", false
}

func mk(sort, s string) Term { return Term{S: s, Sort: sort} }

func IntLit(n int64) Term {
	if n < 0 {
		return mk(SInt, fmt.Sprintf("(- %d)", -n))
	}
	return mk(SInt, fmt.Sprintf("%d", n))
}

var (
	True  = mk(SBool, "true")
	False = mk(SBool, "false")
	NilI  = mk(SIface, "(mkI 0 0)")
	NilSl = mk(SSlice, "(mkSl 0 0 0 0)")
	Zero  = IntLit(0)
)

func BoolLit(b bool) Term {
	if b {
		return True
	}
	return False
}

func app(sort, f string, args ...Term) Term {
	var b strings.Builder
	b.WriteByte('(')
	b.WriteString(f)
	for _, a := range args {
		b.WriteByte(' ')
		b.WriteString(a.S)
	}
	b.WriteByte(')')
	return mk(sort, b.String())
}

func And(ts ...Term) Term {
	var xs []Term
	for _, t := range ts {
		if t.S == "true" {
			continue
		}
		if t.S == "false" {
			return False
		}
		xs = append(xs, t)
	}
	if len(xs) == 0 {
		return True
	}
	if len(xs) == 1 {
		return xs[0]
	}
	return app(SBool, "and", xs...)
}

func Or(ts ...Term) Term {
	var xs []Term
	for _, t := range ts {
		if t.S == "false" {
			continue
		}
		if t.S == "true" {
			return True
		}
		xs = append(xs, t)
	}
	if len(xs) == 0 {
		return False
	}
	if len(xs) == 1 {
		return xs[0]
	}
	return app(SBool, "or", xs...)
}

func Not(t Term) Term {
	if t.S == "true" {
		return False
	}
	if t.S == "false" {
		return True
	}
	if strings.HasPrefix(t.S, "(not ") {
		return mk(SBool, t.S[5:len(t.S)-1])
	}
	return app(SBool, "not", t)
}

func Implies(a, b Term) Term {
	if a.S == "true" {
		return b
	}
	if a.S == "false" || b.S == "true" {
		return True
	}
	return app(SBool, "=>", a, b)
}

func Eq(a, b Term) Term {
	if a.S == b.S {
		return True
	}
	return app(SBool, "=", a, b)
}
func Neq(a, b Term) Term { return Not(Eq(a, b)) }
func Ite(c, a, b Term) Term {
	if c.S == "true" {
		return a
	}
	if c.S == "false" {
		return b
	}
	return app(a.Sort, "ite", c, a, b)
}
func Add(a, b Term) Term { return app(a.Sort, "+", a, b) }
func Sub(a, b Term) Term { return app(a.Sort, "-", a, b) }
func Mul(a, b Term) Term { return app(a.Sort, "*", a, b) }
func Lt(a, b Term) Term  { return app(SBool, "<", a, b) }
func Le(a, b Term) Term  { return app(SBool, "<=", a, b) }
func Gt(a, b Term) Term  { return app(SBool, ">", a, b) }
func Ge(a, b Term) Term  { return app(SBool, ">=", a, b) }

func Select(a, i Term) Term {
	_, v, ok := arrParts(a.Sort)
	if !ok {
		panic("select on non-array sort " + a.Sort + " term " + a.S)
	}
	return app(v, "select", a, i)
}
func Store(a, i, v Term) Term { return app(a.Sort, "store", a, i, v) }

// Slice accessors.
func SlBase(s Term) Term { return app(SInt, "sbase", s) }
func SlOff(s Term) Term  { return app(SInt, "soff", s) }
func SlLen(s Term) Term  { return app(SInt, "slen", s) }
func SlCap(s Term) Term  { return app(SInt, "scap", s) }

// SlIdx is the position of element i of slice s in its backing row (soff+i, kept
// behind an uninterpreted symbol so that quantified facts over elements e-match).
func SlIdx(s, i Term) Term { return app(SInt, "sidx", s, i) }
func MkSlice(base, off, ln, cp Term) Term {
	return app(SSlice, "mkSl", base, off, ln, cp)
}
func ITy(i Term) Term        { return app(SInt, "ity", i) }
func IVal(i Term) Term       { return app(SInt, "ival", i) }
func MkIface(t, v Term) Term { return app(SIface, "mkI", t, v) }

// Result of a solver run.
type SolveResult struct {
	Status  string // unsat | sat | unknown | timeout | error
	Solver  string
	Output  string
	Millis  int64
	AllRuns map[string]string
}

// Prelude shared by all queries.
const preludeCommon = `(declare-sort Str 0)
(declare-datatypes ((Iface 0)) (((mkI (ity Int) (ival Int)))))
(declare-datatypes ((Slice 0)) (((mkSl (sbase Int) (soff Int) (slen Int) (scap Int)))))
(declare-fun sidx (Slice Int) Int)
(declare-fun strsrc (Int) Str)
(assert (forall ((s Slice) (i Int)) (! (= (sidx s i) (+ (soff s) i)) :pattern ((sidx s i)))))
(declare-fun subsl (Slice Int Int Int) Slice)
(assert (forall ((s Slice) (l Int) (h Int) (m Int)) (! (= (subsl s l h m) (mkSl (sbase s) (+ (soff s) l) (- h l) (- m l))) :pattern ((subsl s l h m)))))
(declare-fun strlen (Str) Int)
(assert (forall ((s Str)) (! (>= (strlen s) 0) :pattern ((strlen s)))))
`

type solverSpec struct {
	name string
	bin  string
	args func(file string, timeoutMs int, seed int) []string
	pre  string
}

var solvers = []solverSpec{
	{"z3-5.1", "z3-new", func(f string, t, seed int) []string {
		return []string{fmt.Sprintf("-t:%d", t), fmt.Sprintf("smt.random_seed=%d", seed), f}
	}, ""},
	{"z3-4.8", "z3", func(f string, t, seed int) []string {
		return []string{fmt.Sprintf("-t:%d", t), fmt.Sprintf("smt.random_seed=%d", seed), f}
	}, ""},
	{"cvc5-1.0", "cvc5", func(f string, t, seed int) []string {
		return []string{fmt.Sprintf("--tlimit=%d", t), fmt.Sprintf("--seed=%d", seed), "--produce-models", f}
	}, "(set-logic ALL)\n"},
}

// Runner runs SMT queries with a worker pool, a cache and statistics.
type Runner struct {
	Dir       string
	TimeoutMs int
	Seed      int
	AllAgree  bool // thorough: run every solver and require no contradiction
	mu        sync.Mutex
	cache     map[string]*SolveResult
	n         int
	BySolver  map[string]int
	TotalMs   int64
	Queries   int
	sem       chan struct{}
}

func NewRunner(dir string, timeoutMs, seed int, allAgree bool) *Runner {
	return &Runner{Dir: dir, TimeoutMs: timeoutMs, Seed: seed, AllAgree: allAgree,
		cache: map[string]*SolveResult{}, BySolver: map[string]int{}, sem: make(chan struct{}, 16)}
}

func runOne(sp solverSpec, file string, timeoutMs, seed int) (string, string) {
	return runOneCtx(context.Background(), sp, file, timeoutMs, seed)
}

// cpuMillis returns the CPU time (user+system) consumed so far by process pid.
func cpuMillis(pid int) (int64, bool) {
	b, err := os.ReadFile(fmt.Sprintf("/proc/%d/stat", pid))
	if err != nil {
		return 0, false
	}
	s := string(b)
	i := strings.LastIndex(s, ")")
	if i < 0 {
		return 0, false
	}
	fs := strings.Fields(s[i+1:])
	if len(fs) < 13 {
		return 0, false
	}
	var ut, stt int64
	fmt.Sscan(fs[11], &ut)
	fmt.Sscan(fs[12], &stt)
	return (ut + stt) * 10, true // clock ticks are 10 ms
}

// wallFactor: a query may take this many times its CPU budget in wall-clock time
// before it is given up (a loaded machine slows the solvers, not their answers).
const wallFactor = 8

// runOneCtx runs one solver on one query. The budget timeoutMs is CPU time of the solver
// process, so that a verdict does not depend on the load of the machine; the wall-clock
// cap is wallFactor times the budget.
func runOneCtx(parent context.Context, sp solverSpec, file string, timeoutMs, seed int) (string, string) {
	wall := timeoutMs*wallFactor + 5000
	ctx, cancel := context.WithTimeout(parent, time.Duration(wall)*time.Millisecond)
	defer cancel()
	cmd := exec.CommandContext(ctx, sp.bin, sp.args(file, wall, seed)...)
	var out bytes.Buffer
	cmd.Stdout = &out
	cmd.Stderr = &out
	var overBudget atomic.Bool
	if err := cmd.Start(); err == nil {
		done := make(chan struct{})
		go func() {
			tk := time.NewTicker(50 * time.Millisecond)
			defer tk.Stop()
			for {
				select {
				case <-done:
					return
				case <-tk.C:
					if ms, ok := cpuMillis(cmd.Process.Pid); ok && ms > int64(timeoutMs) {
						overBudget.Store(true)
						cmd.Process.Kill()
						return
					}
				}
			}
		}()
		_ = cmd.Wait()
		close(done)
	}
	o := out.String()
	first := ""
	if strings.Contains(o, "(error ") {
		return "error", o
	}
	for _, l := range strings.Split(o, "\n") {
		l = strings.TrimSpace(l)
		if l == "unsat" || l == "sat" || l == "unknown" || l == "timeout" {
			first = l
			break
		}
	}
	if first == "" {
		if ctx.Err() != nil || overBudget.Load() {
			first = "timeout"
		} else {
			first = "error"
		}
	}
	return first, o
}

// Solve decides one query. script must contain everything after the prelude,
// ending with (check-sat) and optionally (get-model).
func (r *Runner) Solve(script string) *SolveResult { return r.SolveT(script, r.TimeoutMs, false) }

// SolveT decides a query under a specific time limit; with refuteOnly only an unsat answer
// matters (vacuity covers), so a single solver with a short limit is used.
func (r *Runner) SolveT(script string, timeoutMs int, refuteOnly bool) *SolveResult {
	if refuteOnly {
		save := *r
		_ = save
	}
	r.mu.Lock()
	if c, ok := r.cache[script]; ok {
		r.mu.Unlock()
		return c
	}
	r.n++
	id := r.n
	r.mu.Unlock()

	r.sem <- struct{}{}
	defer func() { <-r.sem }()

	t0 := time.Now()
	res := &SolveResult{AllRuns: map[string]string{}}
	files := make([]string, len(solvers))
	for i, sp := range solvers {
		f := filepath.Join(r.Dir, fmt.Sprintf("q%06d_%d.smt2", id, i))
		_ = os.WriteFile(f, []byte(sp.pre+preludeCommon+script), 0o644)
		files[i] = f
	}
	defer func() {
		for _, f := range files {
			os.Remove(f)
		}
	}()
	type ans struct {
		i      int
		status string
		out    string
	}
	if refuteOnly {
		st, o := runOne(solvers[0], files[0], timeoutMs, r.Seed)
		res.AllRuns[solvers[0].name] = st
		res.Status, res.Solver, res.Output = st, solvers[0].name, o
	} else if r.AllAgree {
		ch := make(chan ans, len(solvers))
		for i, sp := range solvers {
			go func(i int, sp solverSpec) {
				s, o := runOne(sp, files[i], r.TimeoutMs, r.Seed)
				ch <- ans{i, s, o}
			}(i, sp)
		}
		var all []ans
		for range solvers {
			all = append(all, <-ch)
		}
		sort.Slice(all, func(a, b int) bool { return all[a].i < all[b].i })
		hasUnsat, hasSat := false, false
		for _, a := range all {
			res.AllRuns[solvers[a.i].name] = a.status
			if a.status == "unsat" {
				hasUnsat = true
			}
			if a.status == "sat" {
				hasSat = true
			}
		}
		switch {
		case hasUnsat && hasSat:
			res.Status = "error"
			res.Output = "solver disagreement"
		case hasUnsat:
			res.Status = "unsat"
		case hasSat:
			res.Status = "sat"
		default:
			res.Status = all[0].status
		}
		for _, a := range all {
			if a.status == res.Status {
				res.Solver = solvers[a.i].name
				res.Output = a.out
				break
			}
		}
	} else {
		// the first solver gets a short head start (it decides almost everything in
		// milliseconds); then all solvers race and the first definite answer wins.
		quick := 1500
		if quick > r.TimeoutMs {
			quick = r.TimeoutMs
		}
		st, o := runOne(solvers[0], files[0], quick, r.Seed)
		res.AllRuns[solvers[0].name] = st
		if st == "unsat" || st == "sat" {
			res.Status, res.Solver, res.Output = st, solvers[0].name, o
		} else {
			res.Status, res.Solver, res.Output = st, solvers[0].name, o
			ctx, cancel := context.WithCancel(context.Background())
			ch := make(chan ans, len(solvers))
			for i, sp := range solvers {
				go func(i int, sp solverSpec) {
					s, o := runOneCtx(ctx, sp, files[i], r.TimeoutMs, r.Seed)
					ch <- ans{i, s, o}
				}(i, sp)
			}
			for range solvers {
				a := <-ch
				if _, seen := res.AllRuns[solvers[a.i].name]; !seen || a.status == "unsat" || a.status == "sat" {
					res.AllRuns[solvers[a.i].name] = a.status
				}
				if a.status == "unsat" || a.status == "sat" {
					res.Status, res.Solver, res.Output = a.status, solvers[a.i].name, a.out
					break
				}
			}
			cancel()
		}
	}
	res.Millis = time.Since(t0).Milliseconds()
	r.mu.Lock()
	r.cache[script] = res
	r.BySolver[res.Solver+":"+res.Status]++
	r.TotalMs += res.Millis
	r.Queries++
	r.mu.Unlock()
	return res
}

// mangle turns an arbitrary string into an SMT symbol.
func mangle(s string) string {
	var b strings.Builder
	for _, r := range s {
		switch {
		case r >= 'a' && r <= 'z', r >= 'A' && r <= 'Z', r >= '0' && r <= '9', r == '_':
			b.WriteRune(r)
		case r == '.' || r == '/':
			b.WriteByte('_')
		case r == '*':
			b.WriteString("P")
		case r == '[':
			b.WriteString("L")
		case r == ']':
			b.WriteString("R")
		default:
			b.WriteString(fmt.Sprintf("_%x_", r))
		}
	}
	return b.String()
}
