package eng

import (
	"bytes"
	"fmt"
	"go/ast"
	"go/printer"
	"go/token"
	"go/types"
	"os"
	"path/filepath"
	"sort"
	"strings"

	"golang.org/x/tools/go/packages"
	"golang.org/x/tools/go/ssa"
	"golang.org/x/tools/go/ssa/ssautil"
)

// Program is the loaded working tree of /repo: typed syntax and naive-form SSA.
type Program struct {
	Fset     *token.FileSet
	Pkgs     map[string]*packages.Package
	SSA      *ssa.Program
	SPkgs    map[string]*ssa.Package
	Funcs    map[string]*ssa.Function // by short name
	Verified map[string]bool          // package paths under verification
	RepoDir  string
	files    map[string]*ast.File // by filename
	src      map[string][]byte
	AllFns   []*ssa.Function
	VarFuncs map[string]*ssa.Function // package-level var bound to a function literal: "var ID"
}

var offlineEnv = []string{"GOFLAGS=-mod=mod", "GOPROXY=off", "GOSUMDB=off", "GOTOOLCHAIN=local"}

const modPath = "github.com/relab/gorums"

// Load loads the given packages of the repository (with the verif tag) and builds SSA.
func Load(repo string, pkgPaths []string, overlay map[string][]byte) (*Program, error) {
	cfg := &packages.Config{
		Mode:       packages.LoadAllSyntax,
		Dir:        repo,
		BuildFlags: []string{"-tags=verif"},
		Env:        append(os.Environ(), offlineEnv...),
		Overlay:    overlay,
	}
	pkgs, err := packages.Load(cfg, pkgPaths...)
	if err != nil {
		return nil, err
	}
	var errs []string
	packages.Visit(pkgs, nil, func(p *packages.Package) {
		if strings.HasPrefix(p.PkgPath, modPath) {
			for _, e := range p.Errors {
				errs = append(errs, e.Error())
			}
		}
	})
	if len(errs) > 0 {
		return nil, fmt.Errorf("load errors:\n%s", strings.Join(errs, "\n"))
	}
	p := &Program{Pkgs: map[string]*packages.Package{}, SPkgs: map[string]*ssa.Package{}, Funcs: map[string]*ssa.Function{},
		Verified: map[string]bool{}, RepoDir: repo, files: map[string]*ast.File{}, src: map[string][]byte{}, VarFuncs: map[string]*ssa.Function{}}
	prog, spkgs := ssautil.AllPackages(pkgs, ssa.NaiveForm|ssa.InstantiateGenerics)
	p.SSA = prog
	for i, pk := range pkgs {
		p.Fset = pk.Fset
		p.Pkgs[pk.PkgPath] = pk
		p.Verified[pk.PkgPath] = true
		if spkgs[i] == nil {
			return nil, fmt.Errorf("no SSA package for %s", pk.PkgPath)
		}
		spkgs[i].Build()
		p.SPkgs[pk.PkgPath] = spkgs[i]
		for _, f := range pk.Syntax {
			fn := pk.Fset.Position(f.Pos()).Filename
			p.files[fn] = f
			if b, ok := overlay[fn]; ok {
				p.src[fn] = b
			} else if b, err := os.ReadFile(fn); err == nil {
				p.src[fn] = b
			}
		}
	}
	// also build dependencies within the module (ordering package etc.) lazily: not needed.
	all := ssautil.AllFunctions(prog)
	for fn := range all {
		if fn.Pkg == nil || !p.Verified[fn.Pkg.Pkg.Path()] {
			// methods of instantiated generics etc. have nil Pkg; skip
			if fn.Pkg == nil {
				continue
			}
			continue
		}
		if fn.Synthetic != "" && fn.Synthetic != "package initializer" {
			continue
		}
		name := p.ShortName(fn)
		p.Funcs[name] = fn
		p.AllFns = append(p.AllFns, fn)
	}
	sort.Slice(p.AllFns, func(i, j int) bool { return p.ShortName(p.AllFns[i]) < p.ShortName(p.AllFns[j]) })
	// package-level vars initialised with function literals
	for path, sp := range p.SPkgs {
		init := sp.Func("init")
		if init == nil {
			continue
		}
		for _, b := range init.Blocks {
			for _, in := range b.Instrs {
				st, ok := in.(*ssa.Store)
				if !ok {
					continue
				}
				g, ok := st.Addr.(*ssa.Global)
				if !ok {
					continue
				}
				var f *ssa.Function
				switch v := st.Val.(type) {
				case *ssa.Function:
					f = v
				case *ssa.MakeClosure:
					f, _ = v.Fn.(*ssa.Function)
				}
				if f != nil {
					p.VarFuncs[p.pkgPrefix(path)+"var "+g.Name()] = f
				}
			}
		}
	}
	return p, nil
}

func (p *Program) pkgPrefix(path string) string {
	if path == modPath {
		return ""
	}
	return strings.TrimPrefix(path, modPath+"/") + "."
}

// ShortName gives the contract key of a function: the SSA name without the
// module path, e.g. "(RawConfiguration).QuorumCall", "(*channel).sendMsg$2", "NewRawNode".
func (p *Program) ShortName(fn *ssa.Function) string {
	s := fn.String()
	s = strings.ReplaceAll(s, modPath+"/cmd/protoc-gen-gorums/", "")
	s = strings.ReplaceAll(s, modPath+"/", "")
	s = strings.ReplaceAll(s, modPath+".", "")
	return s
}

// Lookup resolves a contract function key.
func (p *Program) Lookup(name string) *ssa.Function {
	if f, ok := p.Funcs[name]; ok {
		return f
	}
	if f, ok := p.VarFuncs[name]; ok {
		return f
	}
	return nil
}

func (p *Program) fileOf(pos token.Pos) (*ast.File, string) {
	if !pos.IsValid() {
		return nil, ""
	}
	fn := p.Fset.Position(pos).Filename
	return p.files[fn], fn
}

// NodeAt returns the innermost AST nodes enclosing pos (outermost first).
func (p *Program) PathAt(pos token.Pos) []ast.Node {
	f, _ := p.fileOf(pos)
	if f == nil {
		return nil
	}
	var path []ast.Node
	ast.Inspect(f, func(n ast.Node) bool {
		if n == nil {
			return false
		}
		if n.Pos() <= pos && pos < n.End() {
			path = append(path, n)
			return true
		}
		return false
	})
	return path
}

func (p *Program) NodeText(n ast.Node) string {
	if n == nil {
		return ""
	}
	var b bytes.Buffer
	printer.Fprint(&b, p.Fset, n)
	s := b.String()
	s = strings.Join(strings.Fields(s), " ")
	return s
}

// SrcFrom returns source text starting at pos (single line, trimmed).
func (p *Program) SrcLineFrom(pos token.Pos) string {
	if !pos.IsValid() {
		return ""
	}
	ps := p.Fset.Position(pos)
	src := p.src[ps.Filename]
	if src == nil || ps.Offset >= len(src) {
		return ""
	}
	end := ps.Offset
	for end < len(src) && src[end] != '\n' {
		end++
	}
	return strings.TrimSpace(string(src[ps.Offset:end]))
}

func (p *Program) PosStr(pos token.Pos) string {
	if !pos.IsValid() {
		return "?"
	}
	ps := p.Fset.Position(pos)
	rel, err := filepath.Rel(p.RepoDir, ps.Filename)
	if err != nil {
		rel = ps.Filename
	}
	return fmt.Sprintf("%s:%d", rel, ps.Line)
}

// CallText returns the source text of the callee expression and the whole call for a call at pos.
func (p *Program) CallText(pos token.Pos) (fun string, whole string) {
	path := p.PathAt(pos)
	// the call's Pos is the Lparen; find the innermost CallExpr whose Lparen == pos
	for i := len(path) - 1; i >= 0; i-- {
		if ce, ok := path[i].(*ast.CallExpr); ok && ce.Lparen == pos {
			return p.NodeText(ce.Fun), p.NodeText(ce)
		}
	}
	for i := len(path) - 1; i >= 0; i-- {
		if ce, ok := path[i].(*ast.CallExpr); ok {
			return p.NodeText(ce.Fun), p.NodeText(ce)
		}
	}
	return "", ""
}

// ExprTextAt returns the text of the innermost expression/statement at pos.
func (p *Program) ExprTextAt(pos token.Pos) string {
	path := p.PathAt(pos)
	for i := len(path) - 1; i >= 0; i-- {
		switch n := path[i].(type) {
		case ast.Expr:
			if _, isIdent := n.(*ast.Ident); isIdent && i > 0 {
				if _, ok := path[i-1].(ast.Expr); ok {
					continue
				}
			}
			return p.NodeText(n)
		case ast.Stmt:
			return p.NodeText(n)
		}
	}
	return ""
}

// FindPackage finds a loaded (possibly transitive) package by name or path.
func (p *Program) FindPackage(name string) *types.Package {
	var found *types.Package
	var roots []*packages.Package
	for _, pk := range p.Pkgs {
		roots = append(roots, pk)
	}
	packages.Visit(roots, nil, func(pk *packages.Package) {
		if pk.Types == nil {
			return
		}
		if pk.PkgPath == name || (pk.Types.Name() == name && (found == nil || strings.HasPrefix(pk.PkgPath, modPath))) {
			if found == nil || pk.PkgPath == name || strings.HasPrefix(pk.PkgPath, modPath) {
				found = pk.Types
			}
		}
	})
	return found
}

// LookupType resolves a type expression written in a contract, in the scope of pkg.
func (p *Program) LookupType(pkgPath, expr string) (types.Type, error) {
	pk := p.Pkgs[pkgPath]
	if pk == nil {
		return nil, fmt.Errorf("no package %s", pkgPath)
	}
	tv, err := types.Eval(p.Fset, pk.Types, token.NoPos, expr)
	if err != nil {
		return nil, err
	}
	if !tv.IsType() {
		return nil, fmt.Errorf("%s is not a type", expr)
	}
	return tv.Type, nil
}
