package eng

import (
	"fmt"
	"go/token"
	"go/types"

	"golang.org/x/tools/go/ssa"
)

// SymVal is a symbolic value: Term, *Addr, Tuple, *FuncVal, *IterVal.
type SymVal interface{}

type Tuple []SymVal

const (
	aLocal = iota
	aField // field of a heap object: heap key F!S!f, object Ref
	aCell  // heap cell of non-struct type: heap key C!T, object Ref
	aElem  // slice/array element: heap key E!T, base Ref, index Idx
)

type pathStep struct {
	si    *structInfo
	field int
	idx   *Term // array index step
	arr   string
}

// Addr is a symbolic address.
type Addr struct {
	Kind  int
	Alloc *ssa.Alloc
	Ref   Term
	Idx   Term
	Key   string
	Path  []pathStep
	Typ   types.Type // type of the content of the location
	Root  types.Type // type of the root value (before Path navigation)
}

// FuncVal is a function value known statically (function or closure made in the current activation).
type FuncVal struct {
	Fn       *ssa.Function
	Bindings []SymVal
	Handle   Term
}

// IterVal is a map iterator created by Range.
type IterVal struct {
	Map     Term
	MapT    *types.Map
	Visited string // ghost name of the visited set
	IsStr   bool
}

type deferred struct {
	call   *ssa.CallCommon
	instr  *ssa.Defer
	fnv    SymVal   // evaluated callee value
	args   []SymVal // evaluated arguments (receiver first for methods)
	inLoop bool
}

// Frame is one function activation (the verified function or an inlined callee).
type Frame struct {
	fn      *ssa.Function
	vals    map[ssa.Value]SymVal
	locals  map[*ssa.Alloc]Term
	lptrs   map[*ssa.Alloc]*Addr // local pointer variables holding symbolic addresses
	defers  []deferred
	free    []SymVal
	parent  *Frame
	blk     *ssa.BasicBlock
	idx     int
	prev    *ssa.BasicBlock
	retTo   ssa.Instruction // instruction in parent that receives the results (nil for top)
	retKind int             // 0 call, 1 deferred call (results dropped; re-run rundefers)
	depth   int
	onRet   func(st *State, res []SymVal) // used by spec-level inline calls
	running bool                          // rundefers in progress
	params  []SymVal
}

func (f *Frame) clone() *Frame {
	if f == nil {
		return nil
	}
	g := *f
	g.vals = make(map[ssa.Value]SymVal, len(f.vals))
	for k, v := range f.vals {
		g.vals[k] = v
	}
	g.locals = make(map[*ssa.Alloc]Term, len(f.locals))
	for k, v := range f.locals {
		g.locals[k] = v
	}
	g.lptrs = make(map[*ssa.Alloc]*Addr, len(f.lptrs))
	for k, v := range f.lptrs {
		g.lptrs[k] = v
	}
	g.defers = append([]deferred(nil), f.defers...)
	g.parent = f.parent.clone()
	return &g
}

type alist struct {
	t    string
	prev *alist
	n    int
	r    bool // path restriction (branch condition) rather than a fact about fresh symbols
}

func (a *alist) push(t string, r bool) *alist {
	n := 1
	if a != nil {
		n = a.n + 1
	}
	return &alist{t: t, prev: a, n: n, r: r}
}

// since returns the entries added after base, split into facts and restrictions.
func (a *alist) since(base *alist) (facts, restr []string) {
	bn := 0
	if base != nil {
		bn = base.n
	}
	for p := a; p != nil && p.n > bn; p = p.prev {
		if p.r {
			restr = append([]string{p.t}, restr...)
		} else {
			facts = append([]string{p.t}, facts...)
		}
	}
	return
}

func (a *alist) slice() []string {
	if a == nil {
		return nil
	}
	out := make([]string, a.n)
	for p := a; p != nil; p = p.prev {
		out[p.n-1] = p.t
	}
	return out
}

type heldLock struct {
	Key  string // heap key of the mutex field (F!S!f) or "local:<name>"
	Ref  Term
	Mode int // 1 read, 2 write
}

// State is the symbolic state of one path.
type State struct {
	fr           *Frame
	heaps        map[string]Term
	top          Term
	heapTop      map[string]Term            // allocation frontier when the heap key was last written
	fwd          map[string]map[string]Term // store-to-load forwarding: key -> ref term -> last stored value
	assume       *alist
	ghost        map[string]Term
	held         []heldLock
	fresh        map[string]bool // unescaped refs allocated on this path
	closures     map[string]*FuncVal
	doneOf       map[string]Term // chan term -> ctx term (Done() results)
	path         []string
	dead         bool
	loopsEntered map[*ssa.BasicBlock]bool
	iters        map[string]*IterVal
	events       []string
	blockPts     int
}

func (s *State) clone() *State {
	t := *s
	t.fr = s.fr.clone()
	t.heaps = make(map[string]Term, len(s.heaps))
	for k, v := range s.heaps {
		t.heaps[k] = v
	}
	t.fwd = make(map[string]map[string]Term, len(s.fwd))
	for k, m := range s.fwd {
		c := make(map[string]Term, len(m))
		for r, v := range m {
			c[r] = v
		}
		t.fwd[k] = c
	}
	t.heapTop = make(map[string]Term, len(s.heapTop))
	for k, v := range s.heapTop {
		t.heapTop[k] = v
	}
	t.ghost = make(map[string]Term, len(s.ghost))
	for k, v := range s.ghost {
		t.ghost[k] = v
	}
	t.held = append([]heldLock(nil), s.held...)
	t.fresh = make(map[string]bool, len(s.fresh))
	for k, v := range s.fresh {
		t.fresh[k] = v
	}
	t.closures = make(map[string]*FuncVal, len(s.closures))
	for k, v := range s.closures {
		t.closures[k] = v
	}
	t.doneOf = make(map[string]Term, len(s.doneOf))
	for k, v := range s.doneOf {
		t.doneOf[k] = v
	}
	t.path = append([]string(nil), s.path...)
	t.loopsEntered = make(map[*ssa.BasicBlock]bool, len(s.loopsEntered))
	for k, v := range s.loopsEntered {
		t.loopsEntered[k] = v
	}
	t.iters = make(map[string]*IterVal, len(s.iters))
	for k, v := range s.iters {
		t.iters[k] = v
	}
	t.events = append([]string(nil), s.events...)
	return &t
}

func (s *State) Assume(t Term) {
	if t.S == "true" {
		return
	}
	if t.Sort != SBool {
		panic("assume of non-bool " + t.S)
	}
	s.assume = s.assume.push(t.S, false)
}

// Restrict adds a path restriction (branch condition, or a checked goal assumed afterwards).
func (s *State) Restrict(t Term) {
	if t.S == "true" {
		return
	}
	if t.Sort != SBool {
		panic("restrict of non-bool " + t.S)
	}
	s.assume = s.assume.push(t.S, true)
}

// VC is one verification condition instance (one path to one obligation).
type VC struct {
	Assumes []string
	Goal    Term
	Path    string
	Res     *SolveResult
	Model   string
}

// Oblig is a named proof obligation; it is discharged when all its VCs are unsat.
type Oblig struct {
	Name       string
	Kind       string // requires | ensures | invariant-init | invariant-pres | nopanic | callpre | hook | monitor | lemma | frame | mode | effect | cover | canary
	Tags       []string
	Func       string
	Pos        token.Pos
	PosStr     string
	Src        string
	VCs        []*VC
	Status     string // discharged | failed | undecided
	Detail     string
	Props      []string
	Backend    string
	Millis     int64
	Expect     string // "sat" for covers/canaries
	Structural bool
	StructOK   bool
}

func (o *Oblig) String() string { return fmt.Sprintf("%s [%s] %s", o.Name, o.Kind, o.Status) }
