package eng

import (
	"bytes"
	"context"
	"encoding/json"
	"fmt"
	"os"
	"os/exec"
	"path/filepath"
	"regexp"
	"strings"
	"time"
)

// A replay family turns a failed obligation (and the verifier's model, where useful)
// into an in-package Go test that is run on the real code through `go test -overlay`.
// The test must FAIL when the real code exhibits the violation.
type replayFamily struct {
	re  *regexp.Regexp
	pkg string // directory below the repository root
	gen func(m []string, o *Oblig, model string) string
}

var replayFamilies []replayFamily

func registerReplay(pattern, pkg string, gen func(m []string, o *Oblig, model string) string) {
	replayFamilies = append(replayFamilies, replayFamily{regexp.MustCompile(pattern), pkg, gen})
}

// modelInt extracts the value of an Int constant from a z3 model.
func modelInt(model, name string) (int64, bool) {
	re := regexp.MustCompile(`\(define-fun ` + regexp.QuoteMeta(name) + ` \(\) Int\s+(\(- (\d+)\)|(\d+))\)`)
	m := re.FindStringSubmatch(model)
	if m == nil {
		return 0, false
	}
	var v int64
	if m[2] != "" {
		fmt.Sscan(m[2], &v)
		return -v, true
	}
	fmt.Sscan(m[3], &v)
	return v, true
}

func tryReplay(s *Session, id string, o *Oblig, fr *FuncResult, vc *VC, dir string) *replayResult {
	for _, fam := range replayFamilies {
		m := fam.re.FindStringSubmatch(o.Name)
		if m == nil {
			continue
		}
		src := fam.gen(m, o, vc.Model)
		if src == "" {
			continue
		}
		testFile := filepath.Join(dir, mangle(o.Name)+"_replay_test.go")
		os.WriteFile(testFile, []byte(src), 0o644)
		out, repro := runReplayIn(fam.pkg, testFile)
		return &replayResult{Harness: fam.re.String(), Test: testFile, Output: truncate(out, 6000), Reproduced: repro,
			Command: "go test -overlay <json mapping " + filepath.Join(RepoDir, fam.pkg, "zz_gvc_replay_test.go") + " to the generated test> -vet=off -count=1 -timeout 60s -run TestGvcReplay ./" + fam.pkg}
	}
	return nil
}

func runReplayTest(test string) (string, bool) {
	// the package directory is recorded in the first line of the generated test
	b, err := os.ReadFile(test)
	if err != nil {
		return err.Error(), false
	}
	pkg := ""
	if l := strings.SplitN(string(b), "\n", 2)[0]; strings.HasPrefix(l, "// gvc-replay pkg=") {
		pkg = strings.TrimSpace(strings.TrimPrefix(l, "// gvc-replay pkg="))
	}
	return runReplayIn(pkg, test)
}

// runReplayIn runs the generated test inside the package directory pkg of /repo through an overlay.
func runReplayIn(pkg, testFile string) (string, bool) {
	tmp, err := os.MkdirTemp("", "gvcreplay")
	if err != nil {
		return err.Error(), false
	}
	defer os.RemoveAll(tmp)
	target := filepath.Join(RepoDir, pkg, "zz_gvc_replay_test.go")
	ov := map[string]map[string]string{"Replace": {target: testFile}}
	ob, _ := json.Marshal(ov)
	ovf := filepath.Join(tmp, "overlay.json")
	os.WriteFile(ovf, ob, 0o644)
	ctx, cancel := context.WithTimeout(context.Background(), 180*time.Second)
	defer cancel()
	cmd := exec.CommandContext(ctx, "go", "test", "-overlay", ovf, "-vet=off", "-count=1", "-timeout", "60s", "-run", "TestGvcReplay", ".")
	cmd.Dir = filepath.Join(RepoDir, pkg)
	cmd.Env = append(os.Environ(), offlineEnv...)
	cmd.Env = append(cmd.Env, "GOCACHE="+filepath.Join(os.Getenv("HOME"), ".cache", "go-build"))
	var out bytes.Buffer
	cmd.Stdout = &out
	cmd.Stderr = &out
	err = cmd.Run()
	o := out.String()
	repro := err != nil && (strings.Contains(o, "--- FAIL") || strings.Contains(o, "panic:")) && strings.Contains(o, "GVC-REPLAY")
	return o, repro
}

func init() {
	// C13: the decoder must not panic on any input; the witness search feeds the real
	// codec frames whose method field names entities of every registered kind, plus
	// truncated and inconsistent frames.
	registerReplay(`^\(Codec\)\.(gorumsUnmarshal|Unmarshal)/nopanic\[`, "", func(m []string, o *Oblig, model string) string {
		return `// gvc-replay pkg=
package gorums

import (
	"testing"

	"github.com/relab/gorums/ordering"
	"google.golang.org/protobuf/encoding/protowire"
	"google.golang.org/protobuf/proto"
)

func TestGvcReplay(t *testing.T) {
	c := NewCodec()
	var frames [][]byte
	for _, name := range []string{"", "ordering.Metadata", "ordering.Gorums", "ordering.Gorums.NodeStream", "ordering.Metadata.MessageID", "no.such.Name", "ordering/ordering.proto"} {
		md, _ := proto.Marshal(&ordering.Metadata{MessageID: 1, Method: name})
		var b []byte
		b = protowire.AppendVarint(b, uint64(len(md)))
		b = append(b, md...)
		b = protowire.AppendVarint(b, 0)
		frames = append(frames, b, b[:len(b)/2], append([]byte{0xff, 0xff, 0xff}, b...))
	}
	frames = append(frames, nil, []byte{}, []byte{0x80}, []byte{5, 1, 2})
	for _, f := range frames {
		for _, ty := range []gorumsMsgType{requestType, responseType, 0} {
			func() {
				defer func() {
					if r := recover(); r != nil {
						t.Fatalf("GVC-REPLAY: decoding %x (msgType %d) panicked: %v", f, ty, r)
					}
				}()
				_ = c.Unmarshal(f, newMessage(ty))
			}()
		}
	}
}
`
	})

	// C19: strict-weak-order lemmas of the provided keys, checked by brute force over a
	// small universe of real nodes (the witness search; the proof is the SMT lemma).
	registerReplay(`^lemma C19\.(ID|Port|LastNodeError)\.([a-z-]+)/statement$`, "", func(m []string, o *Oblig, model string) string {
		key, prop := m[1], m[2]
		var check string
		switch prop {
		case "irreflexive":
			check = `for _, a := range ns { if k(a, a) { t.Fatalf("GVC-REPLAY: %s(a, a) == true for a = %s", key, d(a)) } }`
		case "asymmetric":
			check = `for _, a := range ns { for _, b := range ns { if k(a, b) && k(b, a) { t.Fatalf("GVC-REPLAY: %s(a,b) and %s(b,a) both true for a = %s, b = %s", key, key, d(a), d(b)) } } }`
		case "transitive":
			check = `for _, a := range ns { for _, b := range ns { for _, c := range ns { if k(a, b) && k(b, c) && !k(a, c) { t.Fatalf("GVC-REPLAY: %s not transitive on %s, %s, %s", key, d(a), d(b), d(c)) } } } }`
		case "incomparability-transitive":
			check = `for _, a := range ns { for _, b := range ns { for _, c := range ns {
				if !k(a, b) && !k(b, a) && !k(b, c) && !k(c, b) && (k(a, c) || k(c, a)) { t.Fatalf("GVC-REPLAY: %s: incomparability not transitive on %s, %s, %s", key, d(a), d(b), d(c)) } } } }`
		case "errors-last":
			check = `for _, a := range ns { for _, b := range ns { want := a.channel.lastErr() == nil && b.channel.lastErr() != nil
				if k(a, b) != want { t.Fatalf("GVC-REPLAY: %s(a,b) == %v, want %v for a = %s, b = %s", key, k(a, b), want, d(a), d(b)) } } }`
		case "orders-by-id":
			check = `for _, a := range ns { for _, b := range ns { if k(a, b) != (a.id < b.id) { t.Fatalf("GVC-REPLAY: %s(a,b) == %v for a = %s, b = %s", key, k(a, b), d(a), d(b)) } } }`
		default:
			return ""
		}
		return fmt.Sprintf(`// gvc-replay pkg=
package gorums

import (
	"errors"
	"fmt"
	"testing"
)

func TestGvcReplay(t *testing.T) {
	key := %q
	k := %s
	d := func(n *RawNode) string { return fmt.Sprintf("{id:%%d addr:%%s lastErr:%%v}", n.id, n.addr, n.channel.lastErr()) }
	var ns []*RawNode
	for id := uint32(1); id <= 2; id++ {
		for port := 1; port <= 2; port++ {
			for e := 0; e < 2; e++ {
				n := &RawNode{id: id, addr: fmt.Sprintf("127.0.0.1:%%d", 9000+port)}
				n.channel = &channel{}
				if e == 1 {
					n.channel.lastError = errors.New("down")
				}
				ns = append(ns, n)
			}
		}
	}
	%s
}
`, key, key, check)
	})
}
