package eng

import (
	"fmt"
	"go/types"
	"hash/fnv"
	"sort"
	"strings"
)

// Decls collects SMT declarations (ordered) for one verification context.
type Decls struct {
	order     []string
	seen      map[string]bool
	structs   map[string]*structInfo
	strConsts map[string]string
	strOrder  []string
	typeIDs   map[string]int
	typeByID  map[int]types.Type
	n         int
	funcIDs   map[string]int
}

type fieldInfo struct {
	name string
	typ  types.Type
	sort string
	acc  string
}

type structInfo struct {
	name   string // datatype sort name
	ctor   string
	fields []fieldInfo
	key    string // heap key prefix name (type name)
}

func NewDecls() *Decls {
	return &Decls{seen: map[string]bool{}, structs: map[string]*structInfo{}, strConsts: map[string]string{},
		typeIDs: map[string]int{}, typeByID: map[int]types.Type{}, funcIDs: map[string]int{}}
}

func (d *Decls) Raw(line string) {
	if d.seen[line] {
		return
	}
	d.seen[line] = true
	d.order = append(d.order, line)
}

func (d *Decls) Text() string { return strings.Join(d.order, "\n") + "\n" }

func (d *Decls) Const(name, sort string) Term {
	d.Raw(fmt.Sprintf("(declare-const %s %s)", name, sort))
	return mk(sort, name)
}

func (d *Decls) Fresh(prefix, sort string) Term {
	d.n++
	return d.Const(fmt.Sprintf("%s!%d", mangle(prefix), d.n), sort)
}

func (d *Decls) Fun(name string, args []string, ret string) {
	d.Raw(fmt.Sprintf("(declare-fun %s (%s) %s)", name, strings.Join(args, " "), ret))
}

// typeKey returns a canonical name for a Go type.
func typeKey(t types.Type) string {
	return types.TypeString(t, func(p *types.Package) string { return p.Path() })
}

func shortTypeKey(t types.Type) string {
	return types.TypeString(t, func(p *types.Package) string { return p.Name() })
}

func (d *Decls) TypeID(t types.Type) int {
	t = types.Unalias(t)
	k := typeKey(t)
	if id, ok := d.typeIDs[k]; ok {
		return id
	}
	id := len(d.typeIDs) + 1
	d.typeIDs[k] = id
	d.typeByID[id] = t
	return id
}

func structName(t types.Type) string {
	t = types.Unalias(t)
	if n, ok := t.(*types.Named); ok {
		obj := n.Obj()
		if obj.Pkg() != nil {
			return obj.Pkg().Name() + "." + obj.Name()
		}
		return obj.Name()
	}
	h := fnv.New32a()
	h.Write([]byte(typeKey(t)))
	return fmt.Sprintf("anon%x", h.Sum32())
}

// StructInfo declares (lazily) the datatype for a struct type.
func (d *Decls) StructInfo(t types.Type) *structInfo {
	st, ok := t.Underlying().(*types.Struct)
	if !ok {
		panic("StructInfo of non-struct " + t.String())
	}
	name := structName(t)
	if si, ok := d.structs[name]; ok {
		return si
	}
	si := &structInfo{name: "S_" + mangle(name), ctor: "mk_" + mangle(name), key: name}
	d.structs[name] = si
	for i := 0; i < st.NumFields(); i++ {
		f := st.Field(i)
		si.fields = append(si.fields, fieldInfo{name: f.Name(), typ: f.Type(), sort: d.SortOf(f.Type()),
			acc: fmt.Sprintf("%s_%s", mangle(name), mangle(f.Name()))})
	}
	var b strings.Builder
	fmt.Fprintf(&b, "(declare-datatypes ((%s 0)) (((%s", si.name, si.ctor)
	for _, f := range si.fields {
		fmt.Fprintf(&b, " (%s %s)", f.acc, f.sort)
	}
	b.WriteString("))))")
	d.Raw(b.String())
	return si
}

func (d *Decls) SortOf(t types.Type) string {
	t = types.Unalias(t)
	switch u := t.Underlying().(type) {
	case *types.Basic:
		switch {
		case u.Info()&types.IsBoolean != 0:
			return SBool
		case u.Info()&types.IsInteger != 0:
			return SInt
		case u.Info()&types.IsFloat != 0:
			return SReal
		case u.Info()&types.IsString != 0:
			return SStr
		case u.Kind() == types.UnsafePointer:
			return SInt
		case u.Kind() == types.UntypedNil:
			return SInt
		case u.Info()&types.IsComplex != 0:
			return SReal
		}
		return SInt
	case *types.Pointer, *types.Map, *types.Chan, *types.Signature:
		return SInt
	case *types.Interface:
		return SIface
	case *types.Slice:
		return SSlice
	case *types.Struct:
		return d.StructInfo(t).name
	case *types.Array:
		return ArrSort(SInt, d.SortOf(u.Elem()))
	case *types.Tuple:
		return "Tuple"
	case *types.TypeParam:
		return SIface
	}
	return SInt
}

func (d *Decls) StrConst(s string) Term {
	if n, ok := d.strConsts[s]; ok {
		return mk(SStr, n)
	}
	name := fmt.Sprintf("strc!%d", len(d.strConsts))
	d.strConsts[s] = name
	d.Const(name, SStr)
	d.Raw(fmt.Sprintf("(assert (= (strlen %s) %d))", name, len(s)))
	for _, prev := range d.strOrder {
		d.Raw(fmt.Sprintf("(assert (not (= %s %s)))", name, prev))
	}
	d.strOrder = append(d.strOrder, name)
	return mk(SStr, name)
}

// FuncHandle returns a distinct positive Int constant for a static function.
func (d *Decls) FuncHandle(name string) Term {
	id, ok := d.funcIDs[name]
	if !ok {
		id = len(d.funcIDs) + 1
		d.funcIDs[name] = id
	}
	// static function handles live in a reserved negative-free range well above refs:
	// they are plain distinct literals.
	return IntLit(int64(1000000000 + id))
}

// ZeroOf returns the zero value term for a Go type.
func (d *Decls) ZeroOf(t types.Type) Term {
	t = types.Unalias(t)
	switch u := t.Underlying().(type) {
	case *types.Basic:
		switch {
		case u.Info()&types.IsBoolean != 0:
			return False
		case u.Info()&types.IsString != 0:
			return d.StrConst("")
		case u.Info()&(types.IsFloat|types.IsComplex) != 0:
			return mk(SReal, "0.0")
		}
		return Zero
	case *types.Interface, *types.TypeParam:
		return NilI
	case *types.Slice:
		return NilSl
	case *types.Struct:
		si := d.StructInfo(t)
		if len(si.fields) == 0 {
			return mk(si.name, si.ctor)
		}
		args := make([]Term, len(si.fields))
		for i, f := range si.fields {
			args[i] = d.ZeroOf(f.typ)
		}
		return app(si.name, si.ctor, args...)
	case *types.Array:
		es := d.SortOf(u.Elem())
		return mk(ArrSort(SInt, es), fmt.Sprintf("((as const %s) %s)", ArrSort(SInt, es), d.ZeroOf(u.Elem()).S))
	}
	return Zero
}

func intRange(b *types.Basic) (lo, hi string, ok bool) {
	switch b.Kind() {
	case types.Int8:
		return "(- 128)", "127", true
	case types.Int16:
		return "(- 32768)", "32767", true
	case types.Int32:
		return "(- 2147483648)", "2147483647", true
	case types.Int, types.Int64:
		return "(- 9223372036854775808)", "9223372036854775807", true
	case types.Uint8:
		return "0", "255", true
	case types.Uint16:
		return "0", "65535", true
	case types.Uint32:
		return "0", "4294967295", true
	case types.Uint, types.Uint64, types.Uintptr:
		return "0", "18446744073709551615", true
	}
	return "", "", false
}

// WF returns the well-formedness (type invariant) assumption for a value of
// Go type t represented by term x, relative to the allocation frontier top.
func (d *Decls) WF(x Term, t types.Type, top Term, depth int) Term {
	t = types.Unalias(t)
	switch u := t.Underlying().(type) {
	case *types.Basic:
		if lo, hi, ok := intRange(u); ok {
			return And(Le(mk(SInt, lo), x), Le(x, mk(SInt, hi)))
		}
		if u.Kind() == types.UnsafePointer {
			return Ge(x, Zero)
		}
	case *types.Pointer, *types.Map, *types.Chan:
		return And(Ge(x, Zero), Lt(x, top))
	case *types.Signature:
		return Ge(x, Zero)
	case *types.Interface, *types.TypeParam:
		return And(Ge(ITy(x), Zero), Implies(Eq(ITy(x), Zero), Eq(IVal(x), Zero)))
	case *types.Slice:
		return And(Ge(SlBase(x), Zero), Lt(SlBase(x), top), Ge(SlOff(x), Zero), Ge(SlLen(x), Zero),
			Le(SlLen(x), SlCap(x)), Le(SlCap(x), mk(SInt, "4611686018427387904")),
			Implies(Eq(SlBase(x), Zero), Eq(SlCap(x), Zero)))
	case *types.Struct:
		if depth > 3 {
			return True
		}
		si := d.StructInfo(t)
		var cs []Term
		for _, f := range si.fields {
			cs = append(cs, d.WF(app(f.sort, f.acc, x), f.typ, top, depth+1))
		}
		return And(cs...)
	}
	return True
}

// sortedKeys returns the sorted keys of a map[string]T.
func sortedKeys[T any](m map[string]T) []string {
	ks := make([]string, 0, len(m))
	for k := range m {
		ks = append(ks, k)
	}
	sort.Strings(ks)
	return ks
}
