package eng

import (
	"fmt"
	"os"
	"path/filepath"
	"sort"
	"strings"
	"time"
)

var (
	RepoDir  = envOr("VERIF_REPO", "/repo")
	VerifDir = envOr("VERIF_DIR", "/verif")
)

func envOr(k, d string) string {
	if v := os.Getenv(k); v != "" {
		return v
	}
	return d
}

func pkgDirOf(p string) string {
	if d, ok := pkgDirs[p]; ok {
		return d
	}
	return strings.TrimPrefix(p, modPath+"/")
}

var pkgDirs = map[string]string{
	modPath: "",
	modPath + "/cmd/protoc-gen-gorums/gengorums": "cmd/protoc-gen-gorums/gengorums",
	modPath + "/cmd/protoc-gen-gorums/dev":       "cmd/protoc-gen-gorums/dev",
}

const contractFile = "zz_contracts_verif.go"

// ExtraSpecFiles are contract files generated for the current run (schema contracts of generated code).
var ExtraSpecFiles []string

// LoadContracts parses the contract files of the given packages plus the stub files.
func LoadContracts(pkgs []string) (*Contracts, error) {
	cs := NewContracts()
	for _, p := range pkgs {
		f := filepath.Join(RepoDir, pkgDirOf(p), contractFile)
		if _, err := os.Stat(f); err == nil {
			if err := cs.ParseFile(f); err != nil {
				return nil, err
			}
		}
	}
	stubs, _ := filepath.Glob(filepath.Join(VerifDir, "stubs", "*.spec"))
	sort.Strings(stubs)
	stubs = append(stubs, ExtraSpecFiles...)
	for _, f := range stubs {
		if err := cs.ParseFile(f); err != nil {
			return nil, err
		}
	}
	return cs, nil
}

type Session struct {
	P        *Program
	CS       *Contracts
	W        *World
	R        *Runner
	tmp      string
	LoadSecs float64
}

func NewSession(pkgs []string, timeoutMs, seed int, allAgree bool, overlay map[string][]byte) (*Session, error) {
	t0 := time.Now()
	cs, err := LoadContracts(pkgs)
	if err != nil {
		return nil, err
	}
	p, err := Load(RepoDir, pkgs, overlay)
	if err != nil {
		return nil, err
	}
	tmp, err := os.MkdirTemp("", "gvc")
	if err != nil {
		return nil, err
	}
	s := &Session{P: p, CS: cs, W: NewWorld(p, cs), R: NewRunner(tmp, timeoutMs, seed, allAgree), tmp: tmp}
	s.LoadSecs = time.Since(t0).Seconds()
	return s, nil
}

func (s *Session) Close() { os.RemoveAll(s.tmp) }

// VerifyNamed verifies the functions with the given contract keys.
func (s *Session) VerifyNamed(names []string) []*FuncResult {
	var out []*FuncResult
	for _, n := range names {
		fn := s.P.Lookup(n)
		fc := s.CS.Funcs[n]
		if fn == nil {
			out = append(out, &FuncResult{Name: n, Err: "contract drift: function not found in the working tree", HasContract: fc != nil})
			continue
		}
		if fc != nil && fc.Trusted {
			out = append(out, &FuncResult{Name: n, Trusted: true, HasContract: true})
			continue
		}
		x := NewExec(s.W, fn, fc, n)
		out = append(out, x.VerifyFunction())
	}
	return out
}

func Main(args []string) int {
	switch args[0] {
	case "verify":
		return cmdVerify(args[1:])
	case "check":
		return cmdCheck(args[1:])
	case "list":
		return cmdList(args[1:])
	case "replay":
		return cmdReplay(args[1:])
	case "selftest":
		return cmdSelftest(args[1:])
	case "baseline":
		if err := WriteBaselineFile(); err != nil {
			fmt.Fprintln(os.Stderr, err)
			return 2
		}
		fmt.Println("wrote", baselinePath())
		return 0
	}
	fmt.Fprintln(os.Stderr, "unknown command", args[0])
	return 2
}

func allPkgs() []string {
	return []string{modPath, modPath + "/cmd/protoc-gen-gorums/gengorums", modPath + "/cmd/protoc-gen-gorums/dev"}
}

func cmdVerify(args []string) int {
	verbose, dump, sweep := false, false, false
	pkgs := []string{modPath}
	var names []string
	for _, a := range args {
		switch a {
		case "-v":
			verbose = true
		case "-dump":
			dump = true
		case "-sweep":
			sweep = true
		case "-all":
			pkgs = allPkgs()
		case "-gen":
			pkgs = []string{modPath + "/cmd/protoc-gen-gorums/gengorums"}
		default:
			names = append(names, a)
		}
	}
	s, err := NewSession(pkgs, 10000, 0, false, nil)
	if err != nil {
		fmt.Fprintln(os.Stderr, err)
		return 2
	}
	defer s.Close()
	s.W.Sweep = sweep
	if len(names) == 0 {
		for _, n := range s.CS.Order {
			if fc := s.CS.Funcs[n]; !fc.Trusted {
				names = append(names, n)
			}
		}
	}
	t0 := time.Now()
	explicit := len(names) > 0
	if len(names) == 0 {
		for _, n := range s.CS.Order {
			if fc := s.CS.Funcs[n]; !fc.Trusted {
				names = append(names, n)
			}
		}
	}
	res := s.VerifyNamed(names)
	if !explicit {
		res = append(res, s.VerifyLemmas(nil)...)
	}
	SolveAll(s.R, res)
	rc := 0
	for _, fr := range res {
		fmt.Printf("== %s (paths %d)\n", fr.Name, fr.Paths)
		if fr.Err != "" {
			fmt.Println("   ERROR:", fr.Err)
			rc = 1
		}
		for _, n := range fr.Notes {
			fmt.Println("   note:", n)
		}
		if verbose {
			fmt.Println("   inlined:", fr.Inlined, "by-contract:", fr.ByContract, "abstracted:", fr.Abstracted, "user:", fr.UserCalls)
		}
		for _, o := range fr.Obligs {
			if o.Status != "discharged" || verbose {
				fmt.Printf("   %-11s %s  (%d VCs, %s, %dms) %s\n", o.Status, o.Name, len(o.VCs), o.Backend, o.Millis, o.Detail)
			}
			if pat := os.Getenv("GVC_DUMP"); pat != "" && strings.Contains(o.Name, pat) {
				for k, vc := range o.VCs {
					f := filepath.Join(os.TempDir(), fmt.Sprintf("gvc_dbg_%d.smt2", k))
					os.WriteFile(f, []byte(DumpVC(fr, vc)), 0o644)
					fmt.Println("      debug dump", f, vc.Path)
				}
			}
			if o.Status != "discharged" {
				rc = 1
				if dump {
					for _, vc := range o.VCs {
						if vc.Res != nil && (vc.Res.Status != "unsat" || o.Expect == "sat") {
							f := filepath.Join(os.TempDir(), "gvc_dump_"+mangle(o.Name)+".smt2")
							os.WriteFile(f, []byte(DumpVC(fr, vc)), 0o644)
							fmt.Println("      dumped", f)
							if vc.Model != "" && verbose {
								fmt.Println(indent(vc.Model, "      | "))
							}
							break
						}
					}
				}
			}
		}
	}
	fmt.Printf("%d functions, %d queries, %.1fs load, %.1fs verify; solvers %v\n", len(res), s.R.Queries, s.LoadSecs, time.Since(t0).Seconds(), s.R.BySolver)
	return rc
}

func indent(s, p string) string {
	return p + strings.ReplaceAll(strings.TrimSpace(s), "\n", "\n"+p)
}

func cmdList(args []string) int {
	cs, err := LoadContracts(allPkgs())
	if err != nil {
		fmt.Fprintln(os.Stderr, err)
		return 2
	}
	for _, n := range cs.Order {
		fc := cs.Funcs[n]
		fmt.Printf("%-50s props=%v trusted=%v requires=%d ensures=%d loops=%d hooks=%d\n", n, fc.Props, fc.Trusted, len(fc.Requires), len(fc.Ensures), len(fc.Loops), len(fc.Hooks))
	}
	return 0
}
