package eng

import (
	"fmt"
	"go/types"
	"os"
	"runtime/debug"
	"sort"
	"strings"
	"sync"

	"golang.org/x/tools/go/ssa"
)

// FuncResult is the outcome of verifying one function (or lemma group).
type FuncResult struct {
	Name        string
	Obligs      []*Oblig
	Notes       []string
	Err         string
	Paths       int
	Abstracted  []string
	Inlined     []string
	ByContract  []string
	UserCalls   []string
	Spawned     map[string]int
	Decls       string
	HasContract bool
	Trusted     bool
}

func (w *World) addLockEdge(from, to, where string) {
	if from == to {
		return
	}
	w.mu.Lock()
	defer w.mu.Unlock()
	k := from + " -> " + to
	if _, ok := w.lockEdges[k]; !ok {
		w.lockEdges[k] = where
	}
}

func (w *World) declareSpecFun(x *Exec, sf *SpecFun) {
	name := "sf_" + sf.Name
	if x.specDeclared[name] {
		return
	}
	x.specDeclared[name] = true
	if sf.Body == nil {
		if len(sf.Params) == 0 {
			x.D.Const(name, sf.Ret)
		} else {
			x.D.Fun(name, sf.Params, sf.Ret)
		}
		return
	}
	// spec functions referenced by name inside raw SMT bodies must be declared first
	if sf.Body.E.Kind == "raw" {
		for _, other := range x.CS.SpecFuns {
			if other != sf && strings.Contains(sf.Body.E.Lit, "sf_"+other.Name) {
				w.declareSpecFun(x, other)
			}
		}
	}
	// defined function: evaluate the body with parameters bound
	env := &Env{x: x, st: x.blankState(), binds: map[string]Bound{}, pkg: x.pkgPath(), noLocals: true}
	env.old = env.st
	var ps []string
	for i, p := range sf.PNames {
		pn := "p!" + p
		ps = append(ps, fmt.Sprintf("(%s %s)", pn, sf.Params[i]))
		env.binds[p] = Bound{V: mk(sf.Params[i], pn)}
	}
	body := x.evalTerm(env, sf.Body)
	kw := "define-fun"
	if sf.Rec {
		kw = "define-fun-rec"
	}
	x.D.Raw(fmt.Sprintf("(%s %s (%s) %s %s)", kw, name, strings.Join(ps, " "), sf.Ret, body.S))
}

func (x *Exec) blankState() *State {
	st := &State{heaps: map[string]Term{}, heapTop: map[string]Term{}, fwd: map[string]map[string]Term{}, ghost: map[string]Term{}, fresh: map[string]bool{}, closures: map[string]*FuncVal{},
		doneOf: map[string]Term{}, loopsEntered: map[*ssa.BasicBlock]bool{}, iters: map[string]*IterVal{}}
	st.top = x.D.Const("top0", SInt)
	return st
}

func NewExec(w *World, fn *ssa.Function, fc *FuncContract, name string) *Exec {
	x := &Exec{P: w.P, CS: w.CS, D: NewDecls(), W: w, fn: fn, fc: fc, name: name,
		Obligs: map[string]*Oblig{}, Abstracted: map[string]bool{}, Inlined: map[string]bool{}, ByContract: map[string]bool{}, Dispatched: map[string]bool{},
		UserCalls: map[string]bool{}, maxPaths: 4000, covers: map[string]bool{}, Spawned: map[string]int{},
		otherLoops: map[*ssa.Function]map[*ssa.BasicBlock]*loopInfo{}, specDeclared: map[string]bool{}, entryParams: map[*ssa.Parameter]SymVal{},
		heapSorts: map[string]string{}, implLocal: map[string]types.Type{}, ghostTypes: map[string]types.Type{}}
	x.regStdHeaps()
	for _, l := range w.CS.RawSMT {
		x.D.Raw(l)
	}
	return x
}

// VerifyFunction runs the symbolic execution of one function and collects its VCs.
func (x *Exec) VerifyFunction() (res *FuncResult) {
	res = &FuncResult{Name: x.name, HasContract: x.fc != nil}
	defer func() {
		if r := recover(); r != nil {
			if se, ok := r.(specErr); ok {
				res.Err = "contract error: " + se.msg
			} else {
				res.Err = fmt.Sprintf("engine error: %v\n%s", r, debug.Stack())
			}
		}
		x.finish(res)
	}()
	fn := x.fn
	if len(fn.Blocks) == 0 {
		res.Err = "function has no body"
		return
	}
	if x.fc != nil {
		x.wantNoPanic = len(x.fc.NoPanicProps) > 0 || x.W.Sweep
	} else {
		x.wantNoPanic = x.W.Sweep
	}
	x.mapHooks()
	x.analyzeLoops()
	st := x.blankState()
	st.Assume(Gt(st.top, IntLit(1)))
	fr := &Frame{fn: fn, vals: map[ssa.Value]SymVal{}, locals: map[*ssa.Alloc]Term{}, blk: fn.Blocks[0]}
	st.fr = fr
	// nil map has no entries
	// parameters
	for _, p := range fn.Params {
		v := x.freshVal(st, p.Type(), "p_"+p.Name())
		fr.vals[p] = v
		x.entryParams[p] = v
		fr.params = append(fr.params, v)
	}
	for i, fv := range fn.FreeVars {
		v := x.freshVal(st, fv.Type(), "fv_"+fv.Name())
		st.Assume(Neq(v, Zero))
		fr.free = append(fr.free, v)
		_ = i
	}
	// method receivers of pointer type used for field access are non-nil only if required by contract
	x.entry = st.clone()
	// ghosts
	if x.fc != nil {
		env := x.envAt(st)
		env.paramsEntry = true
		for i := range x.fc.Ghosts {
			g := &x.fc.Ghosts[i]
			if !isSMTSort(g.Sort) && !strings.HasPrefix(g.Sort, "S_") {
				t := x.resolveType(env, g.Init, g.Sort)
				g.GoType = g.Sort
				g.Sort = x.D.SortOf(t)
			}
			if g.GoType != "" {
				x.ghostTypes[g.Name] = x.resolveType(env, g.Init, g.GoType)
			}
			v := x.evalTerm(env, g.Init)
			if v.Sort != g.Sort {
				x.specFail(g.Init, "ghost %s declared %s but initialised with %s", g.Name, g.Sort, v.Sort)
			}
			st.ghost[g.Name] = v
		}
		for _, c := range x.fc.Requires {
			st.Assume(x.evalBool(env, c))
		}
		x.assumeAxioms(st)
		for _, u := range x.fc.Uses {
			l2 := x.W.lemmaByName(u)
			if l2 == nil {
				panic(specErr{fmt.Sprintf("%s: unknown lemma %s", x.name, u)})
			}
			st.Assume(x.lemmaTerm(st, l2, true))
		}
		x.entry = st.clone()
		x.entry.ghost = map[string]Term{}
		for k, v := range st.ghost {
			x.entry.ghost[k] = v
		}
		x.Cover(st, "requires", fn.Pos())
	}
	x.run(st)
	if x.err != nil {
		res.Err = x.err.Error()
	}
	// unused anchors are contract drift
	if x.fc != nil {
		for _, lc := range x.fc.Loops {
			if lc.Used == 0 {
				o := x.oblig(fmt.Sprintf("drift[loop %q not found]", lc.Anchor), "drift", nil, fn.Pos())
				o.Structural, o.StructOK = true, false
				o.Detail = fmt.Sprintf("%s:%d: loop anchor %q matches no loop of %s", shortPath(lc.File), lc.Line, lc.Anchor, x.name)
			}
		}
		for _, h := range x.fc.Hooks {
			if h.Used == 0 && x.fc.Opts["optional-hooks"] == "" && !h.Optional {
				o := x.oblig(fmt.Sprintf("drift[on %s %q not found]", h.Kind, h.Anchor), "drift", nil, fn.Pos())
				o.Structural, o.StructOK = true, false
				o.Detail = fmt.Sprintf("%s:%d: hook anchor matches no instruction of %s", shortPath(h.File), h.Line, x.name)
			}
		}
	}
	return
}

func (x *Exec) finish(res *FuncResult) {
	func() {
		defer func() {
			if r := recover(); r != nil && res.Err == "" {
				res.Err = fmt.Sprintf("axiom error: %v", r)
			}
		}()
		x.relevantAxioms()
	}()
	x.implAxioms()
	x.globalAxioms()
	res.Paths = x.paths + 1
	res.Notes = x.Notes
	res.Abstracted = sortedKeys(x.Abstracted)
	res.Inlined = sortedKeys(x.Inlined)
	res.ByContract = sortedKeys(x.ByContract)
	res.UserCalls = sortedKeys(x.UserCalls)
	res.Spawned = x.Spawned
	res.Decls = x.D.Text()
	for _, n := range x.Order {
		o := x.Obligs[n]
		if x.fc != nil {
			o.Props = x.obligProps(o)
		}
		res.Obligs = append(res.Obligs, o)
	}
}

// obligProps decides to which properties an obligation belongs.
func (x *Exec) obligProps(o *Oblig) []string {
	if len(o.Props) > 0 {
		return o.Props
	}
	set := map[string]bool{}
	for _, t := range o.Tags {
		p := t
		if i := strings.Index(t, "."); i >= 0 {
			p = t[:i]
		}
		set[p] = true
	}
	if len(set) == 0 {
		if o.Kind == "nopanic" {
			for _, p := range x.fc.NoPanicProps {
				set[p] = true
			}
		} else {
			for _, p := range x.fc.Props {
				set[p] = true
			}
		}
	}
	return sortedKeys(set)
}

// implAxioms states which known dynamic types implement which interface targets.
func (x *Exec) implAxioms() {
	for _, name := range sortedKeys(x.implLocal) {
		t := x.implLocal[name]
		it, ok := types.Unalias(t).Underlying().(*types.Interface)
		if !ok {
			continue
		}
		var ids []int
		for id := range x.D.typeByID {
			ids = append(ids, id)
		}
		sort.Ints(ids)
		for _, id := range ids {
			dt := x.D.typeByID[id]
			x.D.Raw(fmt.Sprintf("(assert (= (%s %d) %v))", name, id, types.Implements(dt, it)))
		}
	}
}

func (x *Exec) globalAxioms() {
	// distinct global addresses, all allocated before entry
	var gs []string
	for _, l := range x.D.order {
		if strings.HasPrefix(l, "(declare-const glob_") {
			gs = append(gs, strings.Fields(l)[1])
		}
	}
	for i, g := range gs {
		x.D.Raw(fmt.Sprintf("(assert (and (> %s 0) (< %s top0)))", g, g))
		for _, h := range gs[:i] {
			x.D.Raw(fmt.Sprintf("(assert (not (= %s %s)))", g, h))
		}
	}
}

// Solve discharges all VCs of a function result.
func SolveAll(r *Runner, results []*FuncResult) {
	var wg sync.WaitGroup
	for _, fr := range results {
		for _, o := range fr.Obligs {
			if o.Structural {
				if o.StructOK {
					o.Status = "discharged"
					o.Backend = "structural"
				} else {
					o.Status = "failed"
					o.Backend = "structural"
				}
				continue
			}
			for _, vc := range o.VCs {
				if vc.Goal.S == "true" && o.Expect == "" {
					vc.Res = &SolveResult{Status: "unsat", Solver: "syntactic"}
					continue
				}
				wg.Add(1)
				go func(fr *FuncResult, o *Oblig, vc *VC) {
					defer wg.Done()
					var b strings.Builder
					b.WriteString(fr.Decls)
					for _, a := range vc.Assumes {
						b.WriteString("(assert ")
						b.WriteString(a)
						b.WriteString(")\n")
					}
					b.WriteString("(assert (not ")
					b.WriteString(vc.Goal.S)
					b.WriteString("))\n(check-sat)\n")
					if o.Expect == "sat" {
						vc.Res = r.SolveT(b.String(), 1500, true)
					} else if vc.Goal.S == "false" {
						// forbidden operation: the obligation is that the path is unreachable
						vc.Res = r.SolveT(b.String(), 3000, true)
						if vc.Res.Status != "unsat" {
							vc.Res = &SolveResult{Status: "sat", Solver: vc.Res.Solver, Output: "reachability of a forbidden operation not refuted (" + vc.Res.Status + ")", Millis: vc.Res.Millis, AllRuns: vc.Res.AllRuns}
						}
					} else {
						vc.Res = r.Solve(b.String())
					}
					if vc.Res.Status == "sat" && o.Expect == "" {
						m := r.Solve(b.String() + "(get-model)\n")
						vc.Model = m.Output
					}
				}(fr, o, vc)
			}
		}
	}
	wg.Wait()
	for _, fr := range results {
		for _, o := range fr.Obligs {
			if o.Structural {
				continue
			}
			o.Status = "discharged"
			back := map[string]bool{}
			if o.Expect == "sat" {
				// cover: at least one path reaching the point must be satisfiable (not refuted)
				reach := false
				for _, vc := range o.VCs {
					o.Millis += vc.Res.Millis
					back[vc.Res.Solver] = true
					if vc.Res.Status != "unsat" {
						reach = true
					}
				}
				if !reach {
					o.Status = "failed"
					o.Detail = "vacuity: every path condition reaching this point is unsatisfiable"
				}
				o.Backend = strings.Join(sortedKeys(back), "+")
				continue
			}
			for _, vc := range o.VCs {
				o.Millis += vc.Res.Millis
				back[vc.Res.Solver] = true
				switch vc.Res.Status {
				case "unsat":
				case "sat":
					o.Status = "failed"
					o.Detail = "counterexample on path " + vc.Path
				default:
					if o.Status != "failed" {
						o.Status = "undecided"
						o.Detail = vc.Res.Status + " on path " + vc.Path
					}
				}
			}
			if len(o.VCs) == 0 {
				o.Status = "discharged"
				back["no-instance"] = true
			}
			o.Backend = strings.Join(sortedKeys(back), "+")
		}
	}
}

// DumpVC writes the SMT query of a VC for debugging / replay files.
func DumpVC(fr *FuncResult, vc *VC) string {
	var b strings.Builder
	b.WriteString(preludeCommon)
	b.WriteString(fr.Decls)
	for _, a := range vc.Assumes {
		b.WriteString("(assert " + a + ")\n")
	}
	b.WriteString("(assert (not " + vc.Goal.S + "))\n(check-sat)\n(get-model)\n")
	return b.String()
}

var _ = os.Getenv
