package eng

import (
	"encoding/json"
	"fmt"
	"os"
	"os/exec"
	"path/filepath"
	"regexp"
	"sort"
	"strings"
	"sync"
)

// overlayFromPatch applies a unified diff to copies of the files it touches and
// returns them as a go/packages overlay (nothing is written to the repository).
func overlayFromPatch(patch string) (map[string][]byte, error) {
	if abs, err := filepath.Abs(patch); err == nil {
		patch = abs
	}
	b, err := os.ReadFile(patch)
	if err != nil {
		return nil, err
	}
	re := regexp.MustCompile(`(?m)^\+\+\+ b/(\S+)`)
	tmp, err := os.MkdirTemp("", "gvcmut")
	if err != nil {
		return nil, err
	}
	defer os.RemoveAll(tmp)
	var files []string
	for _, m := range re.FindAllStringSubmatch(string(b), -1) {
		files = append(files, m[1])
		src, err := os.ReadFile(filepath.Join(RepoDir, m[1]))
		if err != nil && !os.IsNotExist(err) {
			return nil, err
		}
		dst := filepath.Join(tmp, m[1])
		os.MkdirAll(filepath.Dir(dst), 0o755)
		if err == nil {
			os.WriteFile(dst, src, 0o644)
		}
	}
	cmd := exec.Command("patch", "-p1", "-s", "-f", "-d", tmp, "-i", patch)
	if out, err := cmd.CombinedOutput(); err != nil {
		return nil, fmt.Errorf("patch %s: %v: %s", patch, err, out)
	}
	ov := map[string][]byte{}
	for _, f := range files {
		nb, err := os.ReadFile(filepath.Join(tmp, f))
		if err != nil {
			return nil, err
		}
		ov[filepath.Join(RepoDir, f)] = nb
	}
	return ov, nil
}

// A corpus entry: a patch that must make the check of its property report a violation.
type corpusEntry struct {
	ID, Patch, Kind string
}

type corpusResult struct {
	Property string   `json:"property"`
	Kind     string   `json:"kind"` // mutant | seeded
	Patch    string   `json:"patch"`
	Killed   bool     `json:"killed"`
	Error    string   `json:"error,omitempty"`
	KilledBy []string `json:"killed_by,omitempty"`
}

// runPatch runs the quick check of property id on the tree with the patch applied
// (in memory for library properties, in a scratch copy for the generator properties).
func runPatch(id, p string) (int, []string, error) {
	if plans[id].Gen {
		// generator properties need the patched tree on disk (the plugin is built from it)
		cp, err := os.MkdirTemp("", "gvcrepo")
		if err != nil {
			return 0, nil, err
		}
		defer os.RemoveAll(cp)
		out, cerr := exec.Command("rsync", "-a", "--exclude", ".git", RepoDir+"/", cp+"/").CombinedOutput()
		if cerr == nil {
			out, cerr = exec.Command("patch", "-p1", "-s", "-f", "-d", cp, "-i", p).CombinedOutput()
		}
		if cerr != nil {
			return 0, nil, fmt.Errorf("%v: %s", cerr, out)
		}
		save := RepoDir
		RepoDir = cp
		v, failed := runCheck(id, "quick", 0, nil, true)
		RepoDir = save
		return v, failed, nil
	}
	ov, err := overlayFromPatch(p)
	if err != nil {
		return 0, nil, err
	}
	v, failed := runCheck(id, "quick", 0, ov, true)
	return v, failed, nil
}

// Selftest runs the must-fail corpus: every mutant in selftest/mutants and every
// confirmed seeded change in seeded/ must make the check of its property report a
// violation. Usage: gvc selftest [-j N] [-mutants|-seeds] [property...]
func Selftest(args []string) int {
	jobs := 4
	kinds := map[string]bool{"mutant": true, "seeded": true, "refactor": true, "seeded-documented-miss": true}
	want := map[string]bool{}
	for i := 0; i < len(args); i++ {
		switch a := args[i]; {
		case a == "-one" && i+2 < len(args):
			// worker: one patch, one JSON line on stdout
			id, p := args[i+1], args[i+2]
			r := corpusResult{Property: id, Patch: p}
			stdout := os.Stdout
			os.Stdout, _ = os.Open(os.DevNull)
			v, failed, err := runPatch(id, p)
			os.Stdout = stdout
			if err != nil {
				r.Error = err.Error()
			}
			r.Killed = v > 0
			r.KilledBy = firstN(failed, 6)
			b, _ := json.Marshal(r)
			fmt.Printf("RESULT %s\n", b)
			return 0
		case a == "-j" && i+1 < len(args):
			fmt.Sscan(args[i+1], &jobs)
			i++
		case a == "-mutants":
			kinds["seeded"], kinds["refactor"] = false, false
		case a == "-seeds":
			kinds["mutant"], kinds["refactor"] = false, false
		case a == "-refactors":
			kinds["mutant"], kinds["seeded"] = false, false
		default:
			want[a] = true
		}
	}
	var entries []corpusEntry
	if kinds["mutant"] {
		dirs, _ := filepath.Glob(filepath.Join(VerifDir, "selftest", "mutants", "*"))
		sort.Strings(dirs)
		for _, d := range dirs {
			id := filepath.Base(d)
			if _, ok := plans[id]; !ok || (len(want) > 0 && !want[id]) {
				continue
			}
			patches, _ := filepath.Glob(filepath.Join(d, "*.patch"))
			sort.Strings(patches)
			for _, p := range patches {
				entries = append(entries, corpusEntry{id, p, "mutant"})
			}
		}
	}
	if kinds["seeded"] {
		dirs, _ := filepath.Glob(filepath.Join(VerifDir, "seeded", "*", "patch.diff"))
		sort.Strings(dirs)
		for _, p := range dirs {
			n := filepath.Base(filepath.Dir(p))
			id := strings.SplitN(n, "-", 2)[0]
			if _, ok := plans[id]; !ok || (len(want) > 0 && !want[id]) {
				continue
			}
			kind := "seeded"
			if _, err := os.Stat(filepath.Join(filepath.Dir(p), "EXPECTED-MISS.md")); err == nil {
				kind = "seeded-documented-miss" // outside what the claimed check decides; the reason is in that file
			}
			entries = append(entries, corpusEntry{id, p, kind})
		}
	}
	if kinds["refactor"] {
		// behaviour-preserving rewrites: the checks listed in the props file must stay silent
		dirs, _ := filepath.Glob(filepath.Join(VerifDir, "refactors", "*", "patch.diff"))
		sort.Strings(dirs)
		for _, p := range dirs {
			pb, _ := os.ReadFile(filepath.Join(filepath.Dir(p), "props"))
			for _, id := range strings.Fields(string(pb)) {
				if _, ok := plans[id]; !ok || (len(want) > 0 && !want[id]) {
					continue
				}
				entries = append(entries, corpusEntry{id, p, "refactor"})
			}
		}
	}
	results := make([]corpusResult, len(entries))
	self, _ := os.Executable()
	var wg sync.WaitGroup
	sem := make(chan struct{}, jobs)
	var mu sync.Mutex
	for i, e := range entries {
		wg.Add(1)
		sem <- struct{}{}
		go func(i int, e corpusEntry) {
			defer wg.Done()
			defer func() { <-sem }()
			r := corpusResult{Property: e.ID, Kind: e.Kind, Patch: e.Patch}
			out, err := exec.Command(self, "selftest", "-one", e.ID, e.Patch).CombinedOutput()
			found := false
			for _, l := range strings.Split(string(out), "\n") {
				if strings.HasPrefix(l, "RESULT ") {
					json.Unmarshal([]byte(strings.TrimPrefix(l, "RESULT ")), &r)
					r.Kind = e.Kind
					found = true
				}
			}
			if !found {
				r.Error = fmt.Sprintf("worker failed: %v: %s", err, truncate(string(out), 400))
			}
			name := filepath.Base(e.Patch)
			if e.Kind != "mutant" {
				name = e.Kind + "/" + filepath.Base(filepath.Dir(e.Patch))
			}
			mu.Lock()
			switch {
			case r.Error != "":
				fmt.Printf("%-6s %-48s PATCH-ERROR %s\n", e.ID, name, r.Error)
			case e.Kind == "seeded-documented-miss":
				if r.Killed {
					fmt.Printf("%-6s %-48s killed by %s (was documented as out of reach)\n", e.ID, name, strings.Join(firstN(r.KilledBy, 2), " | "))
				} else {
					fmt.Printf("%-6s %-48s not reported (documented: EXPECTED-MISS.md)\n", e.ID, name)
				}
			case e.Kind == "refactor" && r.Killed:
				fmt.Printf("%-6s %-48s FALSE ALARM %s\n", e.ID, name, strings.Join(firstN(r.KilledBy, 3), " | "))
			case e.Kind == "refactor":
				fmt.Printf("%-6s %-48s silent (as required)\n", e.ID, name)
			case r.Killed:
				fmt.Printf("%-6s %-48s killed by %s\n", e.ID, name, strings.Join(firstN(r.KilledBy, 2), " | "))
			default:
				fmt.Printf("%-6s %-48s SURVIVED\n", e.ID, name)
			}
			mu.Unlock()
			results[i] = r
		}(i, e)
	}
	wg.Wait()
	killed := 0
	var survivors []string
	for _, r := range results {
		ok := r.Killed && r.Error == ""
		if r.Kind == "refactor" {
			ok = !r.Killed && r.Error == ""
		}
		if r.Kind == "seeded-documented-miss" {
			ok = r.Error == ""
		}
		if ok {
			killed++
		} else {
			survivors = append(survivors, r.Property+" "+r.Patch)
		}
	}
	for i := range results {
		results[i].Patch = strings.TrimPrefix(results[i].Patch, VerifDir+"/")
	}
	rep := "report-last.json"
	if len(want) == 0 && kinds["mutant"] && kinds["seeded"] && kinds["refactor"] {
		rep = "report.json"
	}
	writeJSON(filepath.Join(VerifDir, "selftest", rep), map[string]interface{}{"total": len(results), "killed": killed, "results": results})
	fmt.Printf("selftest: %d/%d as required - mutants and seeded changes reported, refactorings silent (report: selftest/%s)\n", killed, len(results), rep)
	for _, s := range survivors {
		fmt.Println("  NOT as required:", s)
	}
	os.RemoveAll(filepath.Join(os.TempDir(), "gvc-selftest-replay"))
	if len(survivors) > 0 {
		return 1
	}
	return 0
}

func firstN(xs []string, n int) []string {
	if len(xs) > n {
		return xs[:n]
	}
	return xs
}
