package eng

import (
	"fmt"
	"os"
	"os/exec"
	"path/filepath"
	"regexp"
	"sort"
	"strings"
)

// overlayFromPatch applies a unified diff to copies of the files it touches and
// returns them as a go/packages overlay (nothing is written to the repository).
func overlayFromPatch(patch string) (map[string][]byte, error) {
	b, err := os.ReadFile(patch)
	if err != nil {
		return nil, err
	}
	re := regexp.MustCompile(`(?m)^\+\+\+ b/(\S+)`)
	tmp, err := os.MkdirTemp("", "gvcmut")
	if err != nil {
		return nil, err
	}
	defer os.RemoveAll(tmp)
	var files []string
	for _, m := range re.FindAllStringSubmatch(string(b), -1) {
		files = append(files, m[1])
		src, err := os.ReadFile(filepath.Join(RepoDir, m[1]))
		if err != nil && !os.IsNotExist(err) {
			return nil, err
		}
		dst := filepath.Join(tmp, m[1])
		os.MkdirAll(filepath.Dir(dst), 0o755)
		if err == nil {
			os.WriteFile(dst, src, 0o644)
		}
	}
	cmd := exec.Command("patch", "-p1", "-s", "-f", "-d", tmp, "-i", patch)
	if out, err := cmd.CombinedOutput(); err != nil {
		return nil, fmt.Errorf("patch %s: %v: %s", patch, err, out)
	}
	ov := map[string][]byte{}
	for _, f := range files {
		nb, err := os.ReadFile(filepath.Join(tmp, f))
		if err != nil {
			return nil, err
		}
		ov[filepath.Join(RepoDir, f)] = nb
	}
	return ov, nil
}

// Selftest runs the must-fail corpus: every mutant must make the check of its
// property report a violation. Usage: gvc selftest [property...]
func Selftest(args []string) int {
	root := filepath.Join(VerifDir, "selftest", "mutants")
	dirs, _ := filepath.Glob(filepath.Join(root, "*"))
	sort.Strings(dirs)
	want := map[string]bool{}
	for _, a := range args {
		want[a] = true
	}
	killed, total := 0, 0
	var survivors []string
	for _, d := range dirs {
		id := filepath.Base(d)
		if len(want) > 0 && !want[id] {
			continue
		}
		if _, ok := plans[id]; !ok {
			continue
		}
		patches, _ := filepath.Glob(filepath.Join(d, "*.patch"))
		sort.Strings(patches)
		for _, p := range patches {
			total++
			if plans[id].Gen {
				// generator properties need the patched tree on disk (the plugin is built from it)
				cp, err := os.MkdirTemp("", "gvcrepo")
				if err == nil {
					out, cerr := exec.Command("rsync", "-a", "--exclude", ".git", RepoDir+"/", cp+"/").CombinedOutput()
					if cerr == nil {
						out, cerr = exec.Command("patch", "-p1", "-s", "-f", "-d", cp, "-i", p).CombinedOutput()
					}
					if cerr != nil {
						fmt.Printf("%-6s %-40s PATCH-ERROR %s\n", id, filepath.Base(p), out)
						survivors = append(survivors, p)
						os.RemoveAll(cp)
						continue
					}
					save := RepoDir
					RepoDir = cp
					v, failed := runCheck(id, "quick", 0, nil, true)
					RepoDir = save
					os.RemoveAll(cp)
					if v > 0 {
						killed++
						fmt.Printf("%-6s %-40s killed by %s\n", id, filepath.Base(p), strings.Join(firstN(failed, 2), " | "))
					} else {
						survivors = append(survivors, p)
						fmt.Printf("%-6s %-40s SURVIVED\n", id, filepath.Base(p))
					}
					continue
				}
			}
			ov, err := overlayFromPatch(p)
			if err != nil {
				fmt.Printf("%-6s %-40s PATCH-ERROR %v\n", id, filepath.Base(p), err)
				survivors = append(survivors, p)
				continue
			}
			v, failed := runCheck(id, "quick", 0, ov, true)
			if v > 0 {
				killed++
				fmt.Printf("%-6s %-40s killed by %s\n", id, filepath.Base(p), strings.Join(firstN(failed, 2), " | "))
			} else {
				survivors = append(survivors, p)
				fmt.Printf("%-6s %-40s SURVIVED\n", id, filepath.Base(p))
			}
		}
	}
	fmt.Printf("selftest: %d/%d mutants killed\n", killed, total)
	if len(survivors) > 0 {
		return 1
	}
	return 0
}

func firstN(xs []string, n int) []string {
	if len(xs) > n {
		return xs[:n]
	}
	return xs
}
