package eng

import (
	"fmt"
	"go/token"
	"go/types"
	"strings"

	"golang.org/x/tools/go/ssa"
)

// ---------------------------------------------------------------- lock identity

func (x *Exec) lockID(v SymVal) (key string, ref Term, ok bool) {
	switch a := v.(type) {
	case *Addr:
		switch a.Kind {
		case aField, aCell:
			k := a.Key
			for _, p := range a.Path {
				if p.si != nil {
					k += "." + p.si.fields[p.field].name
				}
			}
			return k, a.Ref, true
		case aLocal:
			return "local:" + a.Alloc.Comment, Zero, true
		}
	case Term:
		return "obj", a, true
	}
	return "", Term{}, false
}

// monitorFor maps a lock heap key (F!pkg.Type!field) to its declared monitor.
func (x *Exec) monitorFor(key string) (*Monitor, string) {
	if !strings.HasPrefix(key, "F!") {
		return nil, key
	}
	parts := strings.Split(key[2:], "!")
	if len(parts) != 2 {
		return nil, key
	}
	typ, field := parts[0], parts[1]
	short := typ
	if i := strings.Index(typ, "."); i >= 0 {
		short = typ[i+1:]
	}
	if m, ok := x.CS.Monitors[typ+"."+field]; ok {
		return m, typ + "." + field
	}
	if m, ok := x.CS.Monitors[short+"."+field]; ok {
		return m, short + "." + field
	}
	return nil, short + "." + field
}

func fieldNameOfKey(key string) (typ, short, field string) {
	if !strings.HasPrefix(key, "F!") {
		return "", "", ""
	}
	parts := strings.Split(key[2:], "!")
	if len(parts) != 2 {
		return "", "", ""
	}
	typ, field = parts[0], parts[1]
	short = typ
	if i := strings.Index(typ, "."); i >= 0 {
		short = typ[i+1:]
	}
	return
}

func (x *Exec) fieldModesFor(key string) []*FieldMode {
	typ, short, field := fieldNameOfKey(key)
	if typ == "" {
		return nil
	}
	if m, ok := x.CS.FieldModes[typ+"."+field]; ok {
		return m
	}
	return x.CS.FieldModes[short+"."+field]
}

func (x *Exec) concurrent() bool { return x.fc != nil && x.fc.Mode == "concurrent" }

// guardKeys resolves the guards of a monitor to heap keys of the lock's struct.
func (x *Exec) guardKeys(lockKey string, m *Monitor) (keys []string, elemOf []string) {
	typ, _, _ := fieldNameOfKey(lockKey)
	for _, g := range m.Guards {
		el := strings.HasSuffix(g, "[]")
		g = strings.TrimSuffix(g, "[]")
		k := "F!" + typ + "!" + g
		if _, ok := x.keySort(k); !ok {
			continue
		}
		if el {
			elemOf = append(elemOf, k)
		} else {
			keys = append(keys, k)
		}
	}
	return
}

func (x *Exec) doLock(st *State, in ssa.Instruction, arg SymVal, mode int, name string) {
	key, ref, ok := x.lockID(arg)
	if !ok {
		x.note("lock on unsupported address in %s", x.name)
		return
	}
	mon, lname := x.monitorFor(key)
	x.blockingPoint(st, in, "lock", lname, nil)
	// self-deadlock / re-entrancy
	for _, h := range st.held {
		if h.Key == key {
			o := x.oblig("lock-reentry["+lname+"]@"+x.srcOf(in), "lockorder", nil, in.Pos())
			x.Assert(st, o, Neq(h.Ref, ref))
		}
		_, hn := x.monitorFor(h.Key)
		x.W.addLockEdge(hn, lname, x.name+" @"+x.P.PosStr(in.Pos()))
	}
	st.held = append(st.held, heldLock{Key: key, Ref: ref, Mode: mode})
	if mon != nil {
		if x.concurrent() {
			keys, _ := x.guardKeys(key, mon)
			for _, k := range keys {
				if st.fresh[ref.S] {
					continue
				}
				vs, _ := arrPartsV(x.mustSort(k))
				nv := x.D.Fresh("mon_"+k, vs)
				x.setHeap(st, k, Store(x.heap(st, k), ref, nv))
				_, _, fld := fieldNameOfKey(k)
				st.Assume(x.D.WF(nv, x.fieldType(k), st.top, 1))
				_ = fld
			}
		}
		env := x.envAt(st)
		env.binds["this"] = Bound{V: ref, T: x.lockOwnerType(key)}
		for _, c := range mon.Invariants {
			st.Assume(x.evalBool(env, c))
		}
	}
}

func arrPartsV(s string) (string, bool) {
	_, v, ok := arrParts(s)
	return v, ok
}

// fieldType finds the Go type of a field heap key.
func (x *Exec) fieldType(key string) types.Type {
	return x.W.fieldTypes[key]
}

func (x *Exec) lockOwnerType(key string) types.Type {
	typ, _, _ := fieldNameOfKey(key)
	return x.W.structTypes[typ]
}

func (x *Exec) doUnlock(st *State, in ssa.Instruction, arg SymVal, mode int, name string) {
	key, ref, ok := x.lockID(arg)
	if !ok {
		return
	}
	mon, lname := x.monitorFor(key)
	idx := -1
	for k := len(st.held) - 1; k >= 0; k-- {
		if st.held[k].Key == key && st.held[k].Ref.S == ref.S && st.held[k].Mode == mode {
			idx = k
			break
		}
	}
	if idx < 0 {
		if x.fc != nil && x.fc.Opts["semaphore"] == lname {
			return
		}
		o := x.oblig("unlock-of-held["+lname+"]@"+x.srcOf(in), "lockset", nil, in.Pos())
		x.Assert(st, o, False)
		return
	}
	if mon != nil && mode == 2 {
		env := x.envAt(st)
		env.binds["this"] = Bound{V: ref, T: x.lockOwnerType(key)}
		for k, c := range mon.Invariants {
			o := x.oblig(fmt.Sprintf("monitor[%s]/invariant%d%s@unlock", lname, k+1, tagSuffix(c)), "monitor", c.Tags, in.Pos())
			o.Src = c.Text
			x.Assert(st, o, x.evalBool(env, c))
		}
	}
	st.held = append(st.held[:idx], st.held[idx+1:]...)
}

func tagSuffix(c *Clause) string {
	if len(c.Tags) == 0 {
		return ""
	}
	return "[" + c.TagStr() + "]"
}

// ---------------------------------------------------------------- field modes

func (x *Exec) heldFor(st *State, ownerKeyPrefix, lockField string, ref Term, needWrite bool) Term {
	var alts []Term
	for _, h := range st.held {
		typ, _, f := fieldNameOfKey(h.Key)
		if f != lockField || !strings.HasPrefix(ownerKeyPrefix, "F!"+typ+"!") {
			continue
		}
		if needWrite && h.Mode != 2 {
			continue
		}
		alts = append(alts, Eq(h.Ref, ref))
	}
	return Or(alts...)
}

func (x *Exec) modeProps(m *FieldMode) []string {
	var out []string
	for i, a := range m.Args {
		if a == "props" {
			out = append(out, m.Args[i+1:]...)
		}
	}
	return out
}

func (x *Exec) modeArgs(m *FieldMode) []string {
	var out []string
	for _, a := range m.Args {
		if a == "props" {
			break
		}
		out = append(out, a)
	}
	return out
}

func (x *Exec) checkFieldAccess(st *State, key string, ref Term, write bool, in ssa.Instruction, what string) {
	if st.fr.parent != nil && st.fr.fn != x.fn && st.fr.fn.Parent() == nil {
		// accesses inside inlined named functions are checked when those functions are verified
		// (they are still checked here because the lockset is the caller's)
	}
	if st.fresh[ref.S] {
		return
	}
	for _, m := range x.fieldModesFor(key) {
		x.checkFieldMode(st, m, key, ref, write, in)
	}
}

func (x *Exec) checkFieldMode(st *State, m *FieldMode, key string, ref Term, write bool, in ssa.Instruction) {
	_, short, field := fieldNameOfKey(key)
	fname := short + "." + field
	rw := "read"
	if write {
		rw = "write"
	}
	props := x.modeProps(m)
	mk := func(kind string) *Oblig {
		o := x.oblig(fmt.Sprintf("%s[%s %s]@%s", kind, fname, rw, x.srcOf(in)), "mode", props, in.Pos())
		return o
	}
	args := x.modeArgs(m)
	switch m.Mode {
	case "guarded_by":
		if len(args) == 0 {
			return
		}
		o := mk("guarded_by(" + args[0] + ")")
		x.Assert(st, o, x.heldFor(st, key, args[0], ref, write && x.isRW(key, args[0])))
	case "atomic":
		o := mk("atomic")
		x.Assert(st, o, False)
	case "immutable":
		if write {
			o := mk("immutable")
			x.Assert(st, o, False)
		}
	case "writers":
		if write {
			ok := false
			for _, a := range args {
				if a == x.name || a == x.P.ShortName(st.fr.fn) {
					ok = true
				}
			}
			o := mk("writers")
			x.Assert(st, o, BoolLit(ok))
		}
	}
}

func (x *Exec) isRW(ownerKey, lockField string) bool {
	typ, _, _ := fieldNameOfKey(ownerKey)
	t := x.W.fieldTypes["F!"+typ+"!"+lockField]
	return t != nil && strings.HasSuffix(t.String(), "RWMutex")
}

func (x *Exec) fieldPolicy(st *State, p SymVal, write bool, in ssa.Instruction) {
	a, ok := p.(*Addr)
	if !ok || a.Kind != aField {
		return
	}
	x.checkFieldAccess(st, a.Key, a.Ref, write, in, "")
}

// mapFieldPolicy applies the mode of the field a map/slice value was loaded from
// to operations on that map.
func (x *Exec) mapFieldPolicy(st *State, mv ssa.Value, write bool, in ssa.Instruction) {
	ld, ok := mv.(*ssa.UnOp)
	if !ok || ld.Op != token.MUL {
		return
	}
	fa, ok := ld.X.(*ssa.FieldAddr)
	if !ok {
		return
	}
	av, ok := st.fr.vals[fa]
	if !ok {
		return
	}
	a, ok := av.(*Addr)
	if !ok || a.Kind != aField {
		return
	}
	x.checkFieldAccess(st, a.Key, a.Ref, write, in, "map")
}

// ---------------------------------------------------------------- blocking effects

// blockingPoint is called at every instruction that may block.
func (x *Exec) blockingPoint(st *State, in ssa.Instruction, kind, text string, chans []Term) {
	// nonblocking justification through a hook
	justified := false
	for _, h := range x.hooksAt[in] {
		for k, a := range h.Actions {
			if a.Kind == "nonblocking" {
				if h.Kind == "recv" || h.Kind == "send" {
					if !anchorMatch(h.Anchor, text) && kind != "select" {
						continue
					}
				}
				env := x.envAt(st)
				o := x.oblig(fmt.Sprintf("nonblocking[%s %s]%s#%d", h.Kind, h.Anchor, tagSuffix(a.C), k+1), "effect", a.C.Tags, in.Pos())
				o.Src = a.C.Text
				x.Assert(st, o, x.evalBool(env, a.C))
				justified = true
			}
		}
	}
	if justified {
		return
	}
	desc := kind
	if text != "" {
		desc += " " + text
	}
	// policy: no blocking operation while holding a short-hold lock
	for _, h := range st.held {
		mon, lname := x.monitorFor(h.Key)
		if kind == "lock" && lname == text {
			continue
		}
		if mon != nil || x.W.shortLocks[lname] {
			if kind == "lock" {
				// nested acquisition of another short lock is bounded; order is checked separately
				if x.W.shortLocks[text] {
					continue
				}
			}
			allowed := false
			if mon != nil {
				meth := strings.Fields(text + " ")[0]
				if i := strings.LastIndex(meth, "."); i >= 0 {
					meth = meth[i+1:]
				}
				for _, a := range mon.Allows {
					if meth == a {
						allowed = true
					}
				}
			}
			if allowed {
				continue
			}
			var props []string
			if mon != nil {
				props = mon.Props
			}
			o := x.oblig(fmt.Sprintf("lockhold[%s while holding %s]@%s", desc, lname, x.srcOf(in)), "effect", props, in.Pos())
			x.Assert(st, o, False)
		}
	}
	if x.fc == nil || x.fc.Blocks == "" || st.fr.parent != nil && false {
		return
	}
	eff := x.fc.Blocks
	switch {
	case eff == "unbounded":
		return
	case eff == "never":
		if kind == "lock" && x.W.shortLocks[text] {
			return
		}
		o := x.oblig(fmt.Sprintf("blocks-never[%s]@%s", desc, x.srcOf(in)), "effect", x.effectTags(), in.Pos())
		x.Assert(st, o, False)
	case strings.HasPrefix(eff, "until "):
		if kind == "lock" && x.W.shortLocks[text] {
			return
		}
		if kind == "call" {
			for _, ok := range strings.Split(x.fc.Opts["external-ok"], ",") {
				if ok != "" && strings.Contains(text, ok) {
					x.note("external blocking call %s trusted to return once its stream context is cancelled", ok)
					return
				}
			}
		}
		target := x.effectTarget(st)
		if kind == "select" {
			var alts []Term
			for _, ch := range chans {
				if ctx, ok := st.doneOf[ch.S]; ok {
					alts = append(alts, Eq(ctx, target))
				}
			}
			o := x.oblig(fmt.Sprintf("blocks-until[select has %s.Done()]@%s", strings.TrimPrefix(eff, "until "), x.srcOf(in)), "effect", x.effectTags(), in.Pos())
			x.Assert(st, o, Or(alts...))
			// opt also-until=<ctx expr>: every blocking select must ALSO contain that context's Done()
			// (a waiting caller is released by its own context and by the node being closed)
			if also := x.fc.Opts["also-until"]; also != "" {
				c, err := parseClause(also, x.fc.File, x.fc.Line)
				if err != nil {
					panic(specErr{err.Error()})
				}
				env := x.envAt(x.entry)
				env.st = x.entry
				env.paramsEntry = true
				t2 := x.evalTerm(env, c)
				var alts2 []Term
				for _, ch := range chans {
					if ctx, ok := st.doneOf[ch.S]; ok {
						alts2 = append(alts2, Eq(ctx, t2))
					}
				}
				o2 := x.oblig(fmt.Sprintf("blocks-until[select also has %s.Done()]@%s", also, x.srcOf(in)), "effect", x.effectTags(), in.Pos())
				x.Assert(st, o2, Or(alts2...))
			}
			return
		}
		o := x.oblig(fmt.Sprintf("blocks-until[%s not guarded by %s]@%s", desc, strings.TrimPrefix(eff, "until "), x.srcOf(in)), "effect", x.effectTags(), in.Pos())
		x.Assert(st, o, False)
	}
}

func (x *Exec) effectTags() []string {
	if x.fc == nil {
		return nil
	}
	if t, ok := x.fc.Opts["effect-tags"]; ok {
		return strings.Split(t, ",")
	}
	return nil
}

func (x *Exec) effectTarget(st *State) Term {
	if x.effectCtx != nil {
		return *x.effectCtx
	}
	expr := strings.TrimPrefix(x.fc.Blocks, "until ")
	c, err := parseClause(expr, x.fc.File, x.fc.Line)
	if err != nil {
		panic(err)
	}
	env := x.envAt(x.entry)
	env.st = x.entry
	env.paramsEntry = true
	t := x.evalTerm(env, c)
	x.effectCtx = &t
	return t
}

// effectOfCall checks the blocking effect of a callee used by contract.
func (x *Exec) effectOfCall(st *State, in ssa.Instruction, fc *FuncContract, name string, env *Env) {
	eff := fc.Blocks
	if eff == "" || eff == "never" {
		return
	}
	if x.fc != nil {
		for _, ok := range strings.Split(x.fc.Opts["external-ok"], ",") {
			if ok != "" && strings.Contains(name, ok) {
				x.note("blocking callee %s accepted: it returns once the stream context derived from the channel's parent context is cancelled (trusted)", name)
				x.blockingPointCall(st, in, name)
				return
			}
		}
	}
	if strings.HasPrefix(eff, "until ") && x.fc != nil && strings.HasPrefix(x.fc.Blocks, "until ") {
		// callee blocks until its own designated context: must be ours
		c, err := parseClause(strings.TrimPrefix(eff, "until "), fc.File, fc.Line)
		if err == nil {
			ct := x.evalTerm(env, c)
			target := x.effectTarget(st)
			// still a blocking point for lock-hold policy
			x.blockingPointCall(st, in, name)
			o := x.oblig(fmt.Sprintf("blocks-until[callee %s waits on the same context]@%s", name, x.srcOf(in)), "effect", x.effectTags(), in.Pos())
			x.Assert(st, o, Eq(ct, target))
			return
		}
	}
	x.blockingPoint(st, in, "call", name+" ("+eff+")", nil)
}

func (x *Exec) blockingPointCall(st *State, in ssa.Instruction, name string) {
	for _, h := range st.held {
		mon, lname := x.monitorFor(h.Key)
		if mon != nil || x.W.shortLocks[lname] {
			var props []string
			allowed := false
			if mon != nil {
				props = mon.Props
				meth := name
				if i := strings.LastIndex(meth, "."); i >= 0 {
					meth = meth[i+1:]
				}
				for _, a := range mon.Allows {
					if meth == a {
						allowed = true
					}
				}
			}
			if allowed {
				continue
			}
			if i := strings.LastIndex(name, "/"); i >= 0 {
				name = "(" + name[i+1:]
			}
			o := x.oblig(fmt.Sprintf("lockhold[call %s while holding %s]@%s", name, lname, x.srcOf(in)), "effect", props, in.Pos())
			x.Assert(st, o, False)
		}
	}
}

// ---------------------------------------------------------------- intrinsics

func (x *Exec) intrinsic(st *State, in ssa.Instruction, name string, args []SymVal, results *types.Tuple) ([]SymVal, bool) {
	switch name {
	case "(*sync.Mutex).Lock", "(*sync.RWMutex).Lock":
		x.doLock(st, in, args[0], 2, name)
		return nil, true
	case "(*sync.RWMutex).RLock":
		x.doLock(st, in, args[0], 1, name)
		return nil, true
	case "(*sync.Mutex).Unlock", "(*sync.RWMutex).Unlock":
		x.doUnlock(st, in, args[0], 2, name)
		return nil, true
	case "(*sync.RWMutex).RUnlock":
		x.doUnlock(st, in, args[0], 1, name)
		return nil, true
	case "(*sync.Once).Do":
		return x.onceDo(st, in, args)
	case "(context.Context).Done":
		ctx := args[0].(Term)
		x.D.Fun("ctx_done", []string{SIface}, SInt)
		ch := app(SInt, "ctx_done", ctx)
		st.Assume(Gt(ch, Zero))
		st.doneOf[ch.S] = ctx
		return []SymVal{ch}, true
	case "(context.Context).Err":
		ctx := args[0].(Term)
		x.D.Fun("ctx_err", []string{SIface}, SIface)
		x.D.Raw("(assert (forall ((c Iface)) (! (> (ity (ctx_err c)) 0) :pattern ((ctx_err c)))))")
		e := x.D.Fresh("ctxerr", SIface)
		ce := app(SIface, "ctx_err", ctx)
		done := Select(x.heap(st, kCtxDone), ctx)
		st.Assume(Or(Eq(e, NilI), Eq(e, ce)))
		st.Assume(Implies(done, Eq(e, ce)))
		x.setHeap(st, kCtxDone, Store(x.heap(st, kCtxDone), ctx, Or(done, Neq(e, NilI))))
		return []SymVal{e}, true
	}
	if strings.HasPrefix(name, "sync/atomic.") {
		return x.atomicOp(st, in, strings.TrimPrefix(name, "sync/atomic."), args, results)
	}
	return nil, false
}

func (x *Exec) atomicOp(st *State, in ssa.Instruction, op string, args []SymVal, results *types.Tuple) ([]SymVal, bool) {
	// element type from the op name
	var et types.Type
	switch {
	case strings.HasSuffix(op, "Uint64"):
		et = types.Typ[types.Uint64]
	case strings.HasSuffix(op, "Int64"):
		et = types.Typ[types.Int64]
	case strings.HasSuffix(op, "Uint32"):
		et = types.Typ[types.Uint32]
	case strings.HasSuffix(op, "Int32"):
		et = types.Typ[types.Int32]
	default:
		return nil, false
	}
	p := args[0]
	x.nilCheck(st, p, in, "atomic")
	cur := x.Load(st, p, et)
	if x.concurrent() {
		// another goroutine may have changed the cell since we last saw it
		if a, ok := p.(*Addr); !ok || !st.fresh[a.Ref.S] {
			cur = x.freshVal(st, et, "atomic")
		}
	}
	switch {
	case strings.HasPrefix(op, "Load"):
		return []SymVal{cur}, true
	case strings.HasPrefix(op, "Store"):
		x.StoreTo(st, p, et, args[1].(Term))
		return nil, true
	case strings.HasPrefix(op, "Add"):
		nv := Add(cur, args[1].(Term))
		x.StoreTo(st, p, et, nv)
		return []SymVal{nv}, true
	case strings.HasPrefix(op, "Swap"):
		x.StoreTo(st, p, et, args[1].(Term))
		return []SymVal{cur}, true
	case strings.HasPrefix(op, "CompareAndSwap"):
		ok := Eq(cur, args[1].(Term))
		x.StoreTo(st, p, et, Ite(ok, args[2].(Term), cur))
		return []SymVal{ok}, true
	}
	return nil, false
}

// onceDo: either this is the first call (f runs) or not (no-op).
func (x *Exec) onceDo(st *State, in ssa.Instruction, args []SymVal) ([]SymVal, bool) {
	var fv *FuncVal
	switch f := args[1].(type) {
	case *FuncVal:
		fv = f
	case Term:
		fv = st.closures[f.S]
	}
	key, ref, _ := x.lockID(args[0])
	gname := "$once:" + key + ":" + ref.S
	// skip branch
	if _, done := st.ghost[gname]; !done {
		s2 := x.fork(st, fmt.Sprintf("b%d:once-skip", st.fr.blk.Index))
		s2.fr.idx++
		x.run(s2)
	} else {
		return nil, true
	}
	st.path = append(st.path, fmt.Sprintf("b%d:once-run", st.fr.blk.Index))
	st.ghost[gname] = True
	x.fireHooks(st, in, "once-run", false, args, nil)
	if fv == nil || len(fv.Fn.Blocks) == 0 {
		x.note("Once.Do with unknown function")
		return nil, true
	}
	// run f inline
	nf := &Frame{fn: fv.Fn, vals: map[ssa.Value]SymVal{}, locals: map[*ssa.Alloc]Term{}, parent: st.fr,
		blk: fv.Fn.Blocks[0], depth: st.fr.depth + 1, retTo: in, free: fv.Bindings, retKind: 2}
	st.fr = nf
	x.pushed = true
	return nil, true
}
