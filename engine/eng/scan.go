package eng

import (
	"fmt"
	"go/token"
	"go/types"
	"strings"

	"golang.org/x/tools/go/ssa"
)

// fieldOfAddr returns "Type.field" for an address value that is a field of a struct.
func fieldOfAddr(v ssa.Value) (string, *ssa.FieldAddr) {
	fa, ok := v.(*ssa.FieldAddr)
	if !ok {
		return "", nil
	}
	st := derefType(fa.X.Type())
	if st == nil {
		return "", nil
	}
	s, ok := types.Unalias(st).Underlying().(*types.Struct)
	if !ok {
		return "", nil
	}
	n := structName(st)
	if k := strings.Index(n, "."); k >= 0 {
		n = n[k+1:]
	}
	return n + "." + s.Field(fa.Field).Name(), fa
}

// fieldOfLoaded returns "Type.field" when v was loaded from a struct field.
func fieldOfLoaded(v ssa.Value) string {
	for {
		switch u := v.(type) {
		case *ssa.UnOp:
			if u.Op == token.MUL {
				n, _ := fieldOfAddr(u.X)
				return n
			}
			return ""
		case *ssa.ChangeType:
			v = u.X
		default:
			return ""
		}
	}
}

// freshBase reports whether the object whose field is addressed was allocated in the same function
// (composite literal / new), i.e. is not yet published.
func freshBase(fa *ssa.FieldAddr) bool {
	switch b := fa.X.(type) {
	case *ssa.Alloc:
		return true
	case *ssa.FieldAddr:
		return freshBase(b)
	case *ssa.UnOp:
		// constructor pattern: a local variable that only ever holds objects allocated in this function
		if l, ok := b.X.(*ssa.Alloc); ok && b.Op == token.MUL && !l.Heap {
			n := 0
			for _, ref := range *l.Referrers() {
				if st, ok := ref.(*ssa.Store); ok && st.Addr == l {
					if _, isNew := st.Val.(*ssa.Alloc); !isNew {
						return false
					}
					n++
				}
			}
			return n > 0
		}
	}
	return false
}

// ScanFieldModes checks, over every function of the loaded packages, the syntactic side of the
// declared field modes: `writers` (stores only in the listed functions), `users` (loads and stores
// only in the listed functions: the referent is not safe for concurrent use), `immutable` (no store
// outside the allocating function), `atomic` (no plain load/store), `closeonly` (channel never
// sent on). One structural obligation per (field, function) with an access.
func (s *Session) ScanFieldModes(prop string) *FuncResult {
	res := &FuncResult{Name: "field-modes", HasContract: true}
	add := func(name string, ok bool, pos token.Pos, detail string, props []string) {
		for _, o := range res.Obligs {
			if o.Name == name {
				if !ok {
					o.StructOK = false
					o.Detail += "; " + detail
				}
				return
			}
		}
		res.Obligs = append(res.Obligs, &Oblig{Name: name, Kind: "mode", Func: "field-modes", Pos: pos, PosStr: s.P.PosStr(pos),
			Structural: true, StructOK: ok, Detail: detail, Props: props})
	}
	propsOf := func(m *FieldMode) []string {
		for i, a := range m.Args {
			if a == "props" {
				return m.Args[i+1:]
			}
		}
		return nil
	}
	argsOf := func(m *FieldMode) []string {
		var out []string
		for _, a := range m.Args {
			if a == "props" {
				break
			}
			out = append(out, a)
		}
		return out
	}
	for _, fn := range s.P.AllFns {
		fname := s.P.ShortName(fn)
		// senders / receivers: the two ends of a channel field belong to the listed functions only (the
		// guarantee side of a rely clause on what is received: everything sent was sent by a function
		// whose contract says what it sends; and "exactly these goroutines consume the queue")
		chanEnd := func(f, mode, what string, pos token.Pos) {
			if f == "" {
				return
			}
			for _, m := range s.CS.FieldModes[f] {
				if m == nil || m.Mode != mode || !hasProp(propsOf(m), prop) {
					continue
				}
				ok := false
				for _, w := range argsOf(m) {
					if w == fname {
						ok = true
					}
				}
				add(fmt.Sprintf("field-modes/%s[%s]@%s", mode, f, fname), ok, pos, what+" "+f+" in "+fname+" ("+s.P.PosStr(pos)+"): only "+strings.Join(argsOf(m), ", ")+" may", propsOf(m))
			}
		}
		for _, b := range fn.Blocks {
			for _, in := range b.Instrs {
				switch i := in.(type) {
				case *ssa.Store:
					f, fa := fieldOfAddr(i.Addr)
					for _, m := range s.CS.FieldModes[f] {
						if m == nil || !hasProp(propsOf(m), prop) {
							continue
						}
						if freshBase(fa) {
							continue
						}
						switch m.Mode {
						case "writers":
							ok := false
							for _, w := range argsOf(m) {
								if w == fname {
									ok = true
								}
							}
							add(fmt.Sprintf("field-modes/writers[%s]@%s", f, fname), ok, i.Pos(), "store to "+f+" in "+fname+" ("+s.P.PosStr(i.Pos())+")", propsOf(m))
						case "users":
							ok := false
							for _, w := range argsOf(m) {
								if w == fname {
									ok = true
								}
							}
							add(fmt.Sprintf("field-modes/users[%s]@%s", f, fname), ok, i.Pos(), "store to "+f+" (object not safe for concurrent use, confined to the listed functions) in "+fname+" ("+s.P.PosStr(i.Pos())+")", propsOf(m))
						case "immutable":
							add(fmt.Sprintf("field-modes/immutable[%s]@%s", f, fname), false, i.Pos(), "store to immutable field "+f+" in "+fname+" ("+s.P.PosStr(i.Pos())+")", propsOf(m))
						case "atomic":
							add(fmt.Sprintf("field-modes/atomic[%s]@%s", f, fname), false, i.Pos(), "plain store to atomic field "+f+" in "+fname, propsOf(m))
						}
					}
				case *ssa.UnOp:
					if i.Op != token.MUL {
						continue
					}
					f, fa := fieldOfAddr(i.X)
					for _, m := range s.CS.FieldModes[f] {
						if m == nil || !hasProp(propsOf(m), prop) || freshBase(fa) {
							continue
						}
						if m.Mode == "atomic" {
							add(fmt.Sprintf("field-modes/atomic[%s]@%s", f, fname), false, i.Pos(), "plain load of atomic field "+f+" in "+fname, propsOf(m))
						}
						if m.Mode == "users" {
							ok := false
							for _, w := range argsOf(m) {
								if w == fname {
									ok = true
								}
							}
							add(fmt.Sprintf("field-modes/users[%s]@%s", f, fname), ok, i.Pos(), "use of "+f+" (object not safe for concurrent use, confined to the listed functions) in "+fname+" ("+s.P.PosStr(i.Pos())+")", propsOf(m))
						}
					}
				case *ssa.Send:
					f := fieldOfLoaded(i.Chan)
					if m := s.CS.Fields[f]; m != nil && m.Mode == "closeonly" && hasProp(propsOf(m), prop) {
						add(fmt.Sprintf("field-modes/closeonly[%s]@%s", f, fname), false, i.Pos(), "send on close-only channel "+f+" in "+fname, propsOf(m))
					}
					chanEnd(f, "senders", "send on", i.Pos())
				case *ssa.Select:
					for _, st := range i.States {
						f := fieldOfLoaded(st.Chan)
						if st.Dir == types.SendOnly {
							if m := s.CS.Fields[f]; m != nil && m.Mode == "closeonly" && hasProp(propsOf(m), prop) {
								add(fmt.Sprintf("field-modes/closeonly[%s]@%s", f, fname), false, i.Pos(), "send on close-only channel "+f+" in "+fname, propsOf(m))
							}
							chanEnd(f, "senders", "send on", i.Pos())
						} else {
							chanEnd(f, "receivers", "receive from", i.Pos())
						}
					}
				}
				// a channel whose ends are confined must not be copied, passed on or returned: every load of the
				// field is used as the operand of a channel operation right away
				if u, ok := in.(*ssa.UnOp); ok && u.Op == token.MUL {
					if f, _ := fieldOfAddr(u.X); f != "" {
						confined := false
						for _, m := range s.CS.FieldModes[f] {
							if m != nil && (m.Mode == "senders" || m.Mode == "receivers") && hasProp(propsOf(m), prop) {
								confined = true
							}
						}
						if confined && u.Referrers() != nil {
							var vals []ssa.Value = []ssa.Value{u}
							for len(vals) > 0 {
								v := vals[0]
								vals = vals[1:]
								for _, r := range *v.Referrers() {
									okUse := false
									switch rr := r.(type) {
									case *ssa.Send:
										okUse = rr.Chan == v && rr.X != v
									case *ssa.Select:
										okUse = true
										for _, st := range rr.States {
											if st.Send == v {
												okUse = false
											}
										}
									case *ssa.UnOp:
										okUse = rr.Op == token.ARROW
									case *ssa.ChangeType:
										okUse = true
										vals = append(vals, rr)
									case *ssa.Call:
										if b, isB := rr.Call.Value.(*ssa.Builtin); isB && (b.Name() == "len" || b.Name() == "cap") {
											okUse = true
										}
									case *ssa.DebugRef:
										okUse = true
									}
									if !okUse {
										for _, m := range s.CS.FieldModes[f] {
											if m != nil && (m.Mode == "senders" || m.Mode == "receivers") && hasProp(propsOf(m), prop) {
												add(fmt.Sprintf("field-modes/%s[%s]/escapes@%s", m.Mode, f, fname), false, u.Pos(), "the channel "+f+" is copied, passed on or returned in "+fname+" ("+s.P.PosStr(u.Pos())+"): its ends can no longer be attributed to the listed functions", propsOf(m))
											}
										}
									}
								}
							}
						}
					}
				}
				// receive outside a select; range over a channel (Next on a channel iterator is a receive UnOp in SSA)
				if u, ok := in.(*ssa.UnOp); ok && u.Op == token.ARROW {
					chanEnd(fieldOfLoaded(u.X), "receivers", "receive from", u.Pos())
				}
			}
		}
	}
	// package-level variables declared immutable: no store outside the package initialiser
	for _, gname := range sortedKeys(s.CS.Globals) {
		props := s.CS.Globals[gname]
		if !hasProp(props, prop) {
			continue
		}
		found := false
		for _, fn := range s.P.AllFns {
			for _, b := range fn.Blocks {
				for _, in := range b.Instrs {
					for _, op := range in.Operands(nil) {
						if g, ok := (*op).(*ssa.Global); ok && g.Name() == gname && s.P.Verified[g.Pkg.Pkg.Path()] {
							found = true
							if st, ok := in.(*ssa.Store); ok && st.Addr == ssa.Value(g) && fn.Name() != "init" {
								add(fmt.Sprintf("globals/immutable[%s]@%s", gname, s.P.ShortName(fn)), false, in.Pos(), "package-level variable "+gname+" is assigned in "+s.P.ShortName(fn)+" ("+s.P.PosStr(in.Pos())+")", props)
							}
							// taking the address for anything but a load lets it be written elsewhere
							if _, isLoad := in.(*ssa.UnOp); !isLoad {
								if _, isStore := in.(*ssa.Store); !isStore {
									if _, isDbg := in.(*ssa.DebugRef); !isDbg {
										add(fmt.Sprintf("globals/immutable[%s]@%s", gname, s.P.ShortName(fn)), false, in.Pos(), "the address of package-level variable "+gname+" escapes in "+s.P.ShortName(fn), props)
									}
								}
							}
						}
					}
				}
			}
		}
		add(fmt.Sprintf("globals/immutable[%s]/scan-complete", gname), found, token.NoPos, fmt.Sprintf("%d functions scanned", len(s.P.AllFns)), props)
	}
	// closed-world frames of long-lived objects: elements are inserted only into the declared container fields
	for _, tname := range sortedKeys(s.CS.Growing) {
		args := s.CS.Growing[tname]
		var allowed, props []string
		for i, a := range args {
			if a == "props" {
				props = args[i+1:]
				break
			}
			allowed = append(allowed, a)
		}
		if !hasProp(props, prop) {
			continue
		}
		isAllowed := func(f string) bool {
			for _, a := range allowed {
				if tname+"."+a == f {
					return true
				}
			}
			return false
		}
		seen := 0
		for _, fn := range s.P.AllFns {
			for _, b := range fn.Blocks {
				for _, in := range b.Instrs {
					switch i := in.(type) {
					case *ssa.MapUpdate:
						f := fieldOfLoaded(i.Map)
						if strings.HasPrefix(f, tname+".") {
							seen++
							if !isAllowed(f) {
								add(fmt.Sprintf("closed-world[%s grows only in %s]@%s", tname, strings.Join(allowed, ","), f), false, in.Pos(),
									"entries are inserted into "+f+" in "+s.P.ShortName(fn)+" ("+s.P.PosStr(in.Pos())+"): state of a long-lived object that no contract speaks about", props)
							}
						}
					case *ssa.Store:
						f, fa := fieldOfAddr(i.Addr)
						if fa == nil || !strings.HasPrefix(f, tname+".") || freshBase(fa) {
							continue
						}
						if _, isSlice := types.Unalias(i.Val.Type()).Underlying().(*types.Slice); !isSlice {
							continue
						}
						if c, ok := i.Val.(*ssa.Const); ok && c.IsNil() {
							continue
						}
						seen++
						if !isAllowed(f) {
							add(fmt.Sprintf("closed-world[%s grows only in %s]@%s", tname, strings.Join(allowed, ","), f), false, in.Pos(),
								"a slice is stored into "+f+" in "+s.P.ShortName(fn)+" ("+s.P.PosStr(in.Pos())+"): state of a long-lived object that no contract speaks about", props)
						}
					}
				}
			}
		}
		add(fmt.Sprintf("closed-world[%s grows only in %s]/scan-complete", tname, strings.Join(allowed, ",")), len(allowed) == 0 || seen > 0, token.NoPos, fmt.Sprintf("%d functions scanned, %d insertions into declared fields", len(s.P.AllFns), seen), props)
	}
	// one positive obligation per declared field so that the scan is never vacuous
	for _, name := range sortedKeys(s.CS.FieldModes) {
		for _, m := range s.CS.FieldModes[name] {
			if !hasProp(propsOf(m), prop) {
				continue
			}
			switch m.Mode {
			case "writers", "immutable", "atomic", "closeonly", "users", "senders", "receivers":
				add(fmt.Sprintf("field-modes/%s[%s]/scan-complete", m.Mode, name), true, token.NoPos, fmt.Sprintf("%d functions scanned", len(s.P.AllFns)), propsOf(m))
			}
		}
	}
	return res
}
