package eng

import (
	"encoding/json"
	"fmt"
	"go/ast"
	"go/parser"
	"go/token"
	"go/types"
	"os"
	"path/filepath"
	"sort"
	"strings"

	"golang.org/x/tools/go/ssa"
)

var rootPkg = []string{modPath}

// rootAndDev: the runtime plus the static wrappers bundled into every generated package.
var rootAndDev = []string{modPath, modPath + "/cmd/protoc-gen-gorums/dev"}

// genSynthetic runs the freshly built plugin on the two synthetic services (gentool synth) and returns
// the generated files as an overlay at internal/zzsynth*.
func genSynthetic() (map[string][]byte, bool, string) {
	sdir := filepath.Join(curGen.Tmp, "synth")
	o, _ := runCmd(curGen.Tmp, curGen.gentool, "synth", curGen.plugin, sdir)
	var r struct {
		ExitError bool     `json:"exit_error"`
		RespErr   string   `json:"response_error"`
		Stderr    string   `json:"stderr"`
		Files     []string `json:"files"`
	}
	json.Unmarshal([]byte(o), &r)
	ok := !r.ExitError && r.RespErr == "" && len(r.Files) == 2
	ov := map[string][]byte{}
	if ok {
		for _, fn := range r.Files {
			b, _ := os.ReadFile(filepath.Join(sdir, fn))
			ov[filepath.Join(RepoDir, "internal", fn)] = b
		}
	}
	return ov, ok, o
}

// SyntheticStubsPassPerNodeFunction (bounded, structural): in the code generated for the synthetic
// services - which spell per_node_arg out as true, omit it, and spell it out as false - every client
// stub that ACCEPTS a per-node function hands it to the runtime (assigns PerNodeArgFn with a closure
// calling it), and no stub sets PerNodeArgFn without accepting one. Whatever the generator makes of an
// option, signature and body must agree: a function the caller passes is not silently dropped.
func SyntheticStubsPassPerNodeFunction(prop string) *FuncResult {
	res := &FuncResult{Name: "synthetic-stubs (bounded)", HasContract: true}
	ov, ok, o := genSynthetic()
	if !ok {
		structOblig(res, "gen/synthetic/per-node-function-passed-on", false, "the synthetic services were not generated: "+truncate(o, 400), prop)
		return res
	}
	fset := token.NewFileSet()
	stubs, withF := 0, 0
	for _, path := range sortedKeys(ov) {
		f, err := parser.ParseFile(fset, path, ov[path], 0)
		if err != nil {
			structOblig(res, "gen/synthetic/per-node-function-passed-on", false, "generated file does not parse: "+err.Error(), prop)
			return res
		}
		for _, d := range f.Decls {
			fd, isFn := d.(*ast.FuncDecl)
			if !isFn || fd.Recv == nil || fd.Body == nil || len(fd.Recv.List) != 1 {
				continue
			}
			star, isPtr := fd.Recv.List[0].Type.(*ast.StarExpr)
			if !isPtr {
				continue
			}
			if id, isID := star.X.(*ast.Ident); !isID || id.Name != "Configuration" {
				continue
			}
			stubs++
			var fparam string
			for _, p := range fd.Type.Params.List {
				if _, isFunc := p.Type.(*ast.FuncType); isFunc && len(p.Names) == 1 {
					fparam = p.Names[0].Name
				}
			}
			sets, calls := false, false
			ast.Inspect(fd.Body, func(n ast.Node) bool {
				switch u := n.(type) {
				case *ast.AssignStmt:
					for _, l := range u.Lhs {
						if se, isSel := l.(*ast.SelectorExpr); isSel && se.Sel.Name == "PerNodeArgFn" {
							sets = true
						}
					}
				case *ast.KeyValueExpr:
					if k, isID := u.Key.(*ast.Ident); isID && k.Name == "PerNodeArgFn" {
						sets = true
					}
				case *ast.CallExpr:
					if id, isID := u.Fun.(*ast.Ident); isID && fparam != "" && id.Name == fparam {
						calls = true
					}
				}
				return true
			})
			if fparam != "" {
				withF++
			}
			name := fmt.Sprintf("gen/synthetic/per-node-function-passed-on[%s.%s]", filepath.Base(filepath.Dir(path)), fd.Name.Name)
			switch {
			case fparam != "" && !(sets && calls):
				structOblig(res, name, false, "the generated stub accepts a per-node function ("+fparam+") and never hands it to the runtime: every node gets the unmodified request", prop)
			case fparam == "" && sets:
				structOblig(res, name, false, "the generated stub sets PerNodeArgFn without accepting a per-node function", prop)
			default:
				structOblig(res, name, true, "", prop)
			}
		}
	}
	structOblig(res, "gen/synthetic/per-node-function-passed-on/scan-complete", stubs >= 10 && withF >= 4, fmt.Sprintf("%d Configuration stubs in the synthetic output, %d with a per-node function", stubs, withF), prop)
	return res
}

func modeScan(id string) func(s *Session, tier string) []*FuncResult {
	return func(s *Session, tier string) []*FuncResult { return []*FuncResult{s.ScanFieldModes(id)} }
}

func combine(fs ...func(s *Session, tier string) []*FuncResult) func(s *Session, tier string) []*FuncResult {
	return func(s *Session, tier string) []*FuncResult {
		var out []*FuncResult
		for _, f := range fs {
			out = append(out, f(s, tier)...)
		}
		return out
	}
}

// lockOrder: the static lock-order graph collected during symbolic execution must be acyclic.
func lockOrder(id string) func(s *Session, tier string) []*FuncResult {
	return func(s *Session, tier string) []*FuncResult {
		res := &FuncResult{Name: "lock-order", HasContract: true}
		adj := map[string][]string{}
		for e := range s.W.lockEdges {
			p := strings.Split(e, " -> ")
			adj[p[0]] = append(adj[p[0]], p[1])
		}
		var cycle []string
		state := map[string]int{}
		var dfs func(n string, path []string) bool
		dfs = func(n string, path []string) bool {
			state[n] = 1
			for _, m := range adj[n] {
				if state[m] == 1 {
					cycle = append(append([]string{}, path...), n, m)
					return true
				}
				if state[m] == 0 && dfs(m, append(path, n)) {
					return true
				}
			}
			state[n] = 2
			return false
		}
		var nodes []string
		for n := range adj {
			nodes = append(nodes, n)
		}
		sort.Strings(nodes)
		ok := true
		for _, n := range nodes {
			if state[n] == 0 && dfs(n, nil) {
				ok = false
				break
			}
		}
		var edges []string
		for e, w := range s.W.lockEdges {
			edges = append(edges, e+" ("+w+")")
		}
		sort.Strings(edges)
		detail := fmt.Sprintf("%d edges: %s", len(edges), strings.Join(edges, "; "))
		if !ok {
			detail = "cycle " + strings.Join(cycle, " -> ") + "; " + detail
		}
		res.Obligs = append(res.Obligs, &Oblig{Name: "lock-order/acyclic", Kind: "lockorder", Func: "lock-order", Structural: true, StructOK: ok, Detail: detail, Props: []string{id}})
		return []*FuncResult{res}
	}
}

// sweepModes runs every function of the loaded packages that is not under contract through the
// symbolic executor with an empty contract, keeping only the ownership-mode and lock obligations.
func sweepModes(id string) func(s *Session, tier string) []*FuncResult {
	return sweepKinds(id, map[string]bool{"mode": true, "lockorder": true, "lockset": true})
}

func sweepKinds(id string, kinds map[string]bool) func(s *Session, tier string) []*FuncResult {
	return func(s *Session, tier string) []*FuncResult {
		var out []*FuncResult
		skipped := 0
		for _, fn := range s.P.AllFns {
			name := s.P.ShortName(fn)
			realFC := s.W.ContractFor(fn)
			if realFC != nil && (realFC.Trusted || hasProp(realFC.Props, id) || hasProp(realFC.NoPanicProps, id)) {
				continue
			}
			if len(fn.Blocks) == 0 || fn.Name() == "init" || strings.HasPrefix(name, "init$") || fn.Synthetic != "" {
				continue
			}
			if strings.HasSuffix(s.P.Fset.Position(fn.Pos()).Filename, ".pb.go") || strings.Contains(s.P.Fset.Position(fn.Pos()).Filename, "testing_gorums") {
				continue
			}
			fc := &FuncContract{Name: name, Mode: "concurrent", Opts: map[string]string{}, Props: []string{id}}
			if realFC != nil {
				// under contract for other properties: keep its contract (preconditions, hooks), judge only the modes
				fc = realFC
			}
			x := NewExec(s.W, fn, fc, name)
			x.maxPaths = 600
			r := x.VerifyFunction()
			r.HasContract = false
			if r.Err != "" {
				skipped++
				r.Notes = append(r.Notes, "sweep: not analysed ("+strings.SplitN(r.Err, "\n", 2)[0]+")")
				r.Err = ""
				r.Obligs = nil
			}
			var keep []*Oblig
			for _, o := range r.Obligs {
				if kinds[o.Kind] && (o.Kind != "effect" || strings.HasPrefix(o.Name[strings.Index(o.Name, "/")+1:], "lockhold")) {
					if len(o.Props) == 0 {
						o.Props = []string{id}
					}
					keep = append(keep, o)
				}
			}
			r.Obligs = keep
			out = append(out, r)
		}
		return out
	}
}

// reconnectWakeup (C10.b, structural): every timer wait of reconnect must sit in a select that
// also has a case signalled when the stream is re-established by someone else - i.e. a receive
// case other than the timer and the parent context's Done channel.
func reconnectWakeup(s *Session, tier string) []*FuncResult {
	res := &FuncResult{Name: "reconnect-wakeup", HasContract: true}
	fn := s.P.Lookup("(*channel).reconnect")
	if fn == nil {
		res.Err = "contract drift: (*channel).reconnect not found"
		return []*FuncResult{res}
	}
	ok, found := true, false
	var pos token.Pos
	for _, b := range fn.Blocks {
		for _, in := range b.Instrs {
			sel, isSel := in.(*ssa.Select)
			if !isSel || !sel.Blocking {
				continue
			}
			timer, other := false, 0
			for _, st := range sel.States {
				if st.Dir != types.RecvOnly {
					continue
				}
				if c, isCall := st.Chan.(*ssa.Call); isCall {
					if f := c.Call.StaticCallee(); f != nil && f.String() == "time.After" {
						timer = true
						continue
					}
					if c.Call.IsInvoke() && c.Call.Method.Name() == "Done" {
						continue
					}
				}
				other++
			}
			if timer {
				found = true
				pos = sel.Pos()
				if other == 0 {
					ok = false
				}
			}
		}
	}
	if !found {
		ok = true
	}
	res.Obligs = append(res.Obligs, &Oblig{Name: "(*channel).reconnect/wakeup[timer-wait has a stream-up case]", Kind: "effect", Func: "(*channel).reconnect",
		Pos: pos, PosStr: s.P.PosStr(pos), Structural: true, StructOK: ok, Props: []string{"C10"},
		Detail: "the back-off select waits on time.After and parentCtx.Done() only: a stream re-established by the sender's reconnect(1) does not wake the receiver"})
	return []*FuncResult{res}
}

// plans lists the properties for which a check is built.
var plans = map[string]*propertyPlan{
	"C01": {ID: "C01", Level: "proof", Pkgs: rootPkg,
		Explain: "Reply loops of QuorumCall and handleAsyncCall verified against a ghost history of received answers (seen/failed/okmsg, counters): every quorum-function call site is checked for its arguments, the reply set and the once-per-successful-reply / never-after-quorum discipline; success returns exactly the function's last value."},
	"C02": {ID: "C02", Level: "proof", Pkgs: rootPkg, Extra: modeScan("C02"),
		Explain: "Every return of the reply loops is classified (quorum / Incomplete / context) by postconditions over the ghost history; the progress obligation at each blocking select (an answer is still owed) covers the zero-target case; the future is written exactly once before its single close; QuorumCallError.Is is specified completely."},
	"C03": {ID: "C03", Level: "other", Pkgs: rootPkg, Extra: modeScan("C03"),
		Explain: "Program-order part of per-node FIFO: every call function hands its requests to enqueue itself (never from a goroutine) and before it starts its handler goroutine or returns; enqueue registers before it queues and queues exactly the request it was given; newChannel starts exactly one sender and newNodeStream at most one receiver; the sender passes each dequeued request to sendMsg at most once, sendMsg calls SendMsg at most once and synchronously; the server loop starts at most one handler per received message and receives the next message only after the hand-over mutex came back. That Go channels and one gRPC stream are FIFO, and that these facts compose under every schedule, is trusted."},
	"C04": {ID: "C04", Level: "proof", Pkgs: rootPkg, Gen: true, GenServers: true,
		Extra: func(s *Session, tier string) []*FuncResult {
			if curGen == nil {
				return nil
			}
			// the implicit release when a handler returns lives in generated code: every handler the
			// regenerated Register<S>Server functions register must release on return
			all := curGen.ScanServers(s, "C04")
			res := &FuncResult{Name: all.Name, HasContract: true}
			for _, o := range all.Obligs {
				if strings.HasSuffix(o.Name, "/releases-on-return") || strings.HasSuffix(o.Name, "/calls-impl-method-once") || strings.HasSuffix(o.Name, "/exists") {
					res.Obligs = append(res.Obligs, o)
				}
			}
			return []*FuncResult{res}
		},
		Explain: "NodeStream's hand-over protocol proved with ghost counters and a lock token: the loop holds the per-stream mutex at every RecvMsg and at every handler start, hands it to exactly the handler it starts (fresh Once, pointer to this stream's mutex, this stream's context) and re-acquires it before the next receive; Release unlocks only through its Once; the request object handed to a handler was allocated for it and is never handed to (or reused for) a later handler, so a released handler can still read its own request. Relative to sync.Mutex/sync.Once contracts."},
	"C05": {ID: "C05", Level: "proof", Pkgs: rootPkg, Extra: modeScan("C05"),
		Explain: "Router monitor (responseMut) with send credits: enqueue registers exactly the caller's channel under the request's message id before queuing; routeResponse sends only on the channel registered under the id, at most once, deletes a non-streaming entry in the same critical section and leaves every other entry untouched (frame over the whole map); unknown ids are dropped; every response constructed by the channel carries its node's id; reply channels are fresh per call; the message-id counter is only touched atomically."},
	"C06": {ID: "C06", Level: "proof", Pkgs: rootPkg,
		Explain: "Send loops of all call types: per node exactly one enqueue on that node's channel with the caller's request, or with exactly the per-node function's result for (request, node id); a node is skipped exactly when the per-node function's message is invalid (ProtoReflect().IsValid() is false - a typed nil in generated code), and skipped nodes are neither enqueued nor counted; the sender gives up on or sends a request only after it saw the node connected or tried to (re)connect for that very request; Unicast/Multicast wait for exactly as many send confirmations as they queued and for none with no-send-waiting; sendMsg routes the confirmation exactly once on every path, from the sender."},
	"C07": {ID: "C07", Level: "other", Pkgs: rootPkg, Extra: modeScan("C07"),
		Explain: "Sender: per dequeued request exactly one of {handed to sendMsg successfully, one error routed}, every error stamped with the node's id; receiver: on a stream error cancelPendingMsgs runs before anything that can block; cancelPendingMsgs answers every pending router once with the Unavailable stream-down error and removes it; reply loops record one nodeError per failed answer; WrapMessage maps handler errors to their status (Unknown + text for non-status errors). The kind of raw gRPC send errors is not decided."},
	"C08": {ID: "C08", Level: "other", Pkgs: rootPkg,
		Explain: "Blocking-effect contracts: every blocking point on a call's own path (RPCCall, QuorumCall, AsyncCall and its handler, CorrectableCall and its handler, Unicast, Multicast, enqueue, sendMsg and its watcher) is a select containing the call's own context, a credited (non-blocking) send, a short-hold lock, or an external stream call trusted to return on cancellation. RPCCall returns the context's own error. Structural condition only: no wall-clock bound is claimed."},
	"C09": {ID: "C09", Level: "other", Pkgs: rootPkg,
		Extra:   combine(sweepKinds("C09", map[string]bool{"lockorder": true, "lockset": true, "effect": true}), lockOrder("C09")),
		Explain: "Local no-wedge disciplines: every send on a router channel is credited (cannot block) for non-streaming routers; no blocking operation while holding responseMut, mu, RawManager.mu or (beyond SendMsg/NodeStream) streamMut; the lock-order graph is acyclic; reply channels have capacity for every registration; a streaming call removes the router of every node of its configuration when it ends. No global liveness claim."},
	"C10": {ID: "C10", Level: "other", Pkgs: rootPkg, Extra: reconnectWakeup,
		Explain: "Every NodeStream call site derives its context from the channel's parent context, which newContext builds from the general metadata joined with the per-node metadata of exactly this node; the sender tries to connect before judging a request; newNodeStream starts the receiver at most once; the server's connect callback runs exactly once per connection before the first receive. Clause b (no back-off wait) only as a structural wake-up condition."},
	"C11": {ID: "C11", Level: "proof", Pkgs: rootPkg, Gen: true, GenServers: true,
		Extra: combine(modeScan("C11"), func(s *Session, tier string) []*FuncResult {
			if curGen == nil {
				return nil
			}
			// "the typed accessors return without panicking at every moment": they are generated code
			var out []*FuncResult
			for _, fr := range curGen.VerifyAccessors(s, "C11") {
				if strings.Contains(fr.Name, ".Correctable") {
					out = append(out, fr)
				}
			}
			return out
		}),
		Explain: "Correctable is verified as a monitor (invariant over level, done, the watcher slots and the closed-ness of their channels, re-established at every unlock); set's two loops carry quantified invariants (no double close, every watcher at or below the level released); the handler loop is proved to publish exactly the quorum function's level and value whenever the level rises, before it blocks again, to complete exactly once under the three stated conditions and never to lower a level. The typed Get accessors of the regenerated stubs are verified panic-free for every state of the raw object (no reply yet, error, reply)."},
	"C12": {ID: "C12", Level: "other", Pkgs: rootPkg, Extra: modeScan("C12"),
		Explain: "Close visits every pooled node (closeNodeConns over a snapshot), cancels before closing the connection and cannot panic for any option; sender, receiver and reconnect block only on points guarded by the channel's parent context (or external stream calls on contexts derived from it); enqueue after Close answers the request instead of queuing when only the closed branch is enabled, and never panics; one-way calls are released by their own context. Construction: default options, every manager option applied once, in order, to the manager's own record; the two ends of the send queue are confined to enqueue (send) and sender/failQueued (receive)."},
	"C13": {ID: "C13", Level: "proof", Pkgs: rootPkg,
		Explain: "The decoder is proved panic-free for an unconstrained byte slice (every type assertion, slice expression, nil dereference and interface call on its paths), relative to trusted protobuf contracts; it is proved to create the message of the method's input type for requests and output type for responses, to look the method up exactly once under the decoded name, and to reject unknown message kinds; abstract-bytes round trip."},
	"C14": {ID: "C14", Level: "proof", Pkgs: rootAndDev,
		Explain: "Configuration constructors verified against quantified contracts: every result is non-nil, strictly sorted by id (hence duplicate-free) and non-empty; operands (slices, id lists, address lists) are provably unmodified, with the precise in-place/reallocating append model; And removes duplicates through its id set, Except/WithoutNodes keep exactly the ids not removed (witness arrays for both directions), WithNodeIDs resolves exactly registered ids to the pooled objects or fails, WithNodeList/WithNodeMap yield for every given address a node carrying its resolved address and reject id/address mismatches; AddNode/Node keep the pool's lookup consistent (whole-map frame). Sorting relies on sort.Sort's trusted contract instantiated through the proved Len/Less/Swap (C19). NewRawConfiguration is verified by closed-world dispatch over every option type (each against its own contract); WithNewNodes resolves its nested option and unites exactly its result with the old configuration; every constructor frames everything but the pool's own array and fresh arrays; the static wrappers bundled into generated packages (cmd/protoc-gen-gorums/dev) agree with the raw configuration position by position and refuse an empty configuration; a new manager starts with an empty pool."},
	"C15": {ID: "C15", Level: "other", Pkgs: rootPkg, SweepsAll: true, Extra: combine(modeScan("C15"), sweepModes("C15")),
		Explain: "Ownership discipline: every mutable field of channel, RawManager, Correctable, Async (and the atomic flags) has a declared mode - guarded_by(lock), atomic, immutable after publication, or single writer - and every access in every function of the package is checked against it with the lockset tracked through the symbolic execution (objects not yet published are exempt). Objects that are not safe for concurrent use (the per-channel random source) are confined to named functions; a guarded slice or map must not be returned, re-sliced or not. If every access respects its mode no two conflicting accesses are unordered. Silent on gRPC/protobuf internals."},
	"C16": {ID: "C16", Level: "other", Pkgs: []string{modPath + "/cmd/protoc-gen-gorums/gengorums"}, Gen: true, GenToolsOnly: true,
		Extra: func(s *Session, tier string) []*FuncResult {
			runs := 3
			if tier == "thorough" {
				runs = 8
			}
			out := []*FuncResult{ScanMapRanges(s, "C16", map[string]string{
				"gengorums.callTypeOptions":                 "after validateOptions a method carries at most one call-type option (obligation C16.exclusive), so the collected list has at most one element",
				"(*gengorums.callTypeInfo).deriveCallType": "at most one nested check function holds for any method: discharged as obligations nested-call-types/exclusive[...] over the real closures of the table",
				"gengorums.findIdentifiers":                 "bundle time only: identifiers are collected per package and sorted (sort.Strings) before the first element is used",
			})}
			out = append(out, NestedCallTypesExclusive(s, "C16")...)
			out = append(out, ReservedNamesRejected(s, "C16"))
			if curGen != nil && len(curGen.Pkgs) > 0 {
				// bounded: the code regenerated for the repository's own descriptors (and their renamed
				// variants) type-checks together with the committed message code
				res := &FuncResult{Name: "regenerated-code-compiles (bounded)", HasContract: true}
				_, lerr := Load(RepoDir, curGen.Pkgs, curGen.Overlay)
				detail := fmt.Sprintf("%d packages with regenerated *_gorums.pb.go files type-check", len(curGen.Pkgs))
				if lerr != nil {
					detail = "the regenerated code does not compile: " + truncate(lerr.Error(), 1500)
				}
				structOblig(res, "gen/compiles[regenerated output of the repository's descriptors]", lerr == nil, detail, "C16")
				// and a synthetic service built in memory: every call type, with and without per-node
				// arguments, async, server stream - all request and response messages IMPORTED from
				// other packages, so every message type in the output must be qualified
				ov, okGen, o := genSynthetic()
				structOblig(res, "gen/accepts[synthetic service with imported message types]", okGen, truncate(o, 400), "C16")
				if okGen {
					// two files generated in one plugin run (same method names, different call types)
					_, serr := Load(RepoDir, []string{modPath + "/internal/zzsynth", modPath + "/internal/zzsynth2"}, ov)
					d := "the code generated for the two synthetic services type-checks (packages overlaid at internal/zzsynth*, nothing written to the repository)"
					if serr != nil {
						d = "the code generated for the synthetic service does not compile: " + truncate(serr.Error(), 1500)
					}
					structOblig(res, "gen/compiles[synthetic service with imported message types]", serr == nil, d, "C16")
				}
				out = append(out, res)
			}
			if curGen != nil {
				out = append(out, curGen.GeneratorRuns("C16", runs))
			}
			return out
		},
		Explain: "Decision logic of the generator under contract: validateOptions is proved, over uninterpreted option and stream flags, to reject every documented illegal combination and to accept every combination of the documented option matrix; hasMethodOption/hasAllMethodOption are proved to be the existential/universal over their variadic list. Emission order: every range over a Go map in package gengorums must only collect keys that are sorted before use (structural obligation); the one first-hit range (deriveCallType over nested call types) is order-independent because the nested check functions - the real closures of the table, inlined over an arbitrary method - are proved pairwise exclusive. Supplementary bounded checks, labelled as such: the freshly built plugin is run 3 times on each repository descriptor (identical names, order and bytes) and on descriptors mutated in memory with each illegal pair of options (a diagnostic is required). 'The emitted text compiles for every service definition' is not applicable to this family."},
	"C17": {ID: "C17", Level: "other", Gen: true,
		Extra: func(s *Session, tier string) []*FuncResult {
			if curGen == nil {
				return nil
			}
			out := append([]*FuncResult{curGen.ScanServers(s, "C17")}, curGen.VerifyAccessors(s, "C17")...)
			return append(out, SyntheticStubsPassPerNodeFunction("C17"))
		},
		Explain: "On every run the plugin is built from the working tree and run on CodeGeneratorRequests assembled from the descriptors the repository's packages register (no protoc); its output replaces the committed *_gorums.pb.go as a go/packages overlay. Part 1 (binding) runs on descriptors whose methods are renamed in memory to lower_snake_case - every generated Go identifier stays as it is, but every wire name now differs from all of them: every regenerated client stub is symbolically executed against a schema contract rendered from the descriptor (not from the templates): it calls exactly the runtime entry of its call type, once, with Method == the method's full name, the caller's request and context, per-node adapter iff per_node_arg, quorum function set, ServerStream as declared, options passed through; every Register<S>Server registers each method exactly once under its full name with a handler that calls that implementation method once, releases on return and replies per its shape. Part 2 (currency): regenerated output and a fresh bundle equal the committed files, comments aside."},
	"C18": {ID: "C18", Level: "proof", Pkgs: rootPkg, Extra: modeScan("C18"),
		Explain: "No residue: the client's long-lived objects grow only in the declared containers (closed-world scan over every function of the package: channel.responseRouters; RawManager.nodes/lookup per node; nothing in RawNode), and for those: a non-streaming router is deleted in the critical section that answers it (routeResponse, cancelPendingMsgs - which leaves no router at all); enqueue registers nothing for a nil reply channel; sendMsg's confirmation removes the one-way router on every path; sendMsg closes its watcher's done channel exactly once on every path after starting it; the handler goroutines of async and correctable calls leave their loop exactly under the completion conditions and close/complete exactly once."},
	"C19": {ID: "C19", Level: "proof", Pkgs: rootPkg, Extra: modeScan("C19"),
		Explain: "Less is proved equal to the lexicographic combination of its keys (loop invariant over a recursive spec function); each provided key's real code is inlined into four strict-weak-order lemmas; Sort/Swap/Len contracts tie sort.Sort's trusted contract to the node slice."},
}
