package eng

var rootPkg = []string{modPath}

// plans lists the properties for which a check is built.
func modeScan(id string) func(s *Session, tier string) []*FuncResult {
	return func(s *Session, tier string) []*FuncResult { return []*FuncResult{s.ScanFieldModes(id)} }
}

var plans = map[string]*propertyPlan{
	"C01": {ID: "C01", Level: "proof", Pkgs: rootPkg,
		Explain: "Reply loops of QuorumCall and handleAsyncCall verified against a ghost history of received answers (seen/failed/okmsg, counters): every quorum-function call site is checked for its arguments, the reply set and the once-per-successful-reply / never-after-quorum discipline; success returns exactly the function's last value."},
	"C02": {ID: "C02", Level: "proof", Pkgs: rootPkg, Extra: modeScan("C02"),
		Explain: "Every return of the reply loops is classified (quorum / Incomplete / context) by postconditions over the ghost history; the progress obligation at each blocking select (an answer is still owed) covers the zero-target case; the future is written exactly once before its single close; QuorumCallError.Is is specified completely."},
	"C11": {ID: "C11", Level: "proof", Pkgs: rootPkg, Extra: modeScan("C11"),
		Explain: "Correctable is verified as a monitor (invariant over level, done, the watcher slots and the closed-ness of their channels, re-established at every unlock); set's two loops carry quantified invariants (no double close, every watcher at or below the level released); the handler loop is proved to publish exactly the quorum function's level and value whenever the level rises, before it blocks again, to complete exactly once under the three stated conditions and never to lower a level."},
	"C13": {ID: "C13", Level: "proof", Pkgs: rootPkg,
		Explain: "The decoder is proved panic-free for an unconstrained byte slice (every type assertion, slice expression, nil dereference and interface call on its paths), relative to trusted protobuf contracts; it is proved to create the message of the method's input type for requests and output type for responses, to look the method up exactly once under the decoded name, and to reject unknown message kinds."},
	"C19": {ID: "C19", Level: "proof", Pkgs: rootPkg,
		Explain: "Less is proved equal to the lexicographic combination of its keys (loop invariant over a recursive spec function); each provided key's real code is inlined into four strict-weak-order lemmas; Sort/Swap/Len contracts tie sort.Sort's trusted contract to the node slice."},
}
