package eng

var rootPkg = []string{modPath}

// plans lists the properties for which a check is built.
var plans = map[string]*propertyPlan{
	"C19": {ID: "C19", Level: "proof", Pkgs: rootPkg,
		Explain: "Less is proved equal to the lexicographic combination of its keys (loop invariant over a recursive spec function); each provided key's real code is inlined into four strict-weak-order lemmas; Sort/Swap/Len contracts tie sort.Sort's trusted contract to the node slice."},
}
