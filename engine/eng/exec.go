package eng

import (
	"fmt"
	"go/ast"
	"go/constant"
	"go/token"
	"go/types"
	"sort"
	"strings"

	"golang.org/x/tools/go/ssa"
)

type loopInfo struct {
	head     *ssa.BasicBlock
	body     map[*ssa.BasicBlock]bool
	lc       *LoopContract
	modLoc   []*ssa.Alloc
	modKeys  []string
	modGhost []string
	rangeIdx *ssa.Alloc
	rangeLen ssa.Value
	countVar *ssa.Alloc // counting loop `for i := c; i < e; i++`: the local counting completed iterations
	hasDefer bool
	src      string
	ordinal  int
	stmt     ast.Node
}

// Exec verifies one function against its contract.
type Exec struct {
	P    *Program
	CS   *Contracts
	D    *Decls
	W    *World
	fn   *ssa.Function
	fc   *FuncContract
	name string

	Obligs  map[string]*Oblig
	Order   []string
	loops   map[*ssa.BasicBlock]*loopInfo
	hooksAt map[ssa.Instruction][]*Hook
	identHooks map[*Hook]map[string]bool // hooks attached through baseline identities
	mute       bool                      // side computation: record no obligations
	entry   *State
	paths   int
	Notes   []string

	wantNoPanic  bool
	Abstracted   map[string]bool
	Inlined      map[string]bool
	ByContract   map[string]bool
	Dispatched   map[string]bool // interface calls resolved by closed-world dispatch
	UserCalls    map[string]bool
	err          error
	maxPaths     int
	specDepth    int
	returns      int
	effectCtx    *Term
	covers       map[string]bool
	heapSorts    map[string]string
	Spawned      map[string]int
	otherLoops   map[*ssa.Function]map[*ssa.BasicBlock]*loopInfo
	specDeclared map[string]bool
	entryParams  map[*ssa.Parameter]SymVal
	implLocal    map[string]types.Type
	pushed       bool
	curLoop      *loopInfo
	ghostTypes   map[string]types.Type
}

type pathAbort struct{ reason string }

func (x *Exec) note(format string, a ...interface{}) {
	s := fmt.Sprintf(format, a...)
	for _, n := range x.Notes {
		if n == s {
			return
		}
	}
	x.Notes = append(x.Notes, s)
}

func (x *Exec) pkgPath() string {
	if x.fn != nil && x.fn.Pkg != nil {
		return x.fn.Pkg.Pkg.Path()
	}
	return modPath
}

// ---------------------------------------------------------------- obligations

func (x *Exec) oblig(name, kind string, tags []string, pos token.Pos) *Oblig {
	full := x.name + "/" + name
	if x.mute {
		return &Oblig{Name: full, Kind: kind}
	}
	if o, ok := x.Obligs[full]; ok {
		return o
	}
	o := &Oblig{Name: full, Kind: kind, Tags: tags, Func: x.name, Pos: pos, PosStr: x.P.PosStr(pos)}
	x.Obligs[full] = o
	x.Order = append(x.Order, full)
	return o
}

// Assert records a VC for obligation o on the current path and then assumes the goal.
func (x *Exec) Assert(st *State, o *Oblig, goal Term) {
	if goal.Sort != SBool {
		panic("assert of non-bool: " + goal.S)
	}
	if x.mute {
		// side computation (peeking at a loop head): no obligation is recorded
		if goal.S != "false" {
			st.Restrict(goal)
		}
		return
	}
	if goal.S == "true" {
		// trivially true instance: still counts as an instance (discharged syntactically)
		o.VCs = append(o.VCs, &VC{Goal: goal, Path: strings.Join(st.path, ";")})
		return
	}
	o.VCs = append(o.VCs, &VC{Assumes: st.assume.slice(), Goal: goal, Path: strings.Join(st.path, ";")})
	if goal.S != "false" {
		st.Restrict(goal)
	}
}

// Cover records a satisfiability check of the current path condition.
func (x *Exec) Cover(st *State, name string, pos token.Pos) {
	if x.mute {
		return
	}
	o := x.oblig("cover["+name+"]", "cover", nil, pos)
	o.Expect = "sat"
	if len(o.VCs) >= 400 {
		return
	}
	o.VCs = append(o.VCs, &VC{Assumes: st.assume.slice(), Goal: False, Path: strings.Join(st.path, ";")})
}

// ---------------------------------------------------------------- heap access

func fieldKey(si *structInfo, i int) string { return "F!" + si.key + "!" + si.fields[i].name }
func cellKey(t types.Type) string           { return "C!" + shortTypeKey(types.Unalias(t)) }
func elemKey(t types.Type) string           { return "E!" + shortTypeKey(types.Unalias(t)) }
func mapKeys(m *types.Map) (has, val, card string) {
	k := shortTypeKey(m.Key()) + "!" + shortTypeKey(m.Elem())
	return "MH!" + k, "MV!" + k, "MC!" + k
}

// keySort returns the sort of a heap key, registering it in this context on demand.
func (x *Exec) keySort(key string) (string, bool) {
	if s, ok := x.heapSorts[key]; ok {
		return s, true
	}
	if reg, ok := x.W.keyReg[key]; ok {
		reg(x)
		s, ok := x.heapSorts[key]
		return s, ok
	}
	if strings.HasPrefix(key, "G!") {
		if gs, ok := x.CS.GhostHeaps[key[2:]]; ok {
			x.heapSorts[key] = gs
			return gs, true
		}
	}
	return "", false
}

func (x *Exec) mustSort(key string) string {
	s, ok := x.keySort(key)
	if !ok {
		panic("unknown heap key " + key)
	}
	return s
}

func (x *Exec) regHeap(key, sort string) {
	if old, ok := x.heapSorts[key]; ok && old != sort {
		panic(fmt.Sprintf("heap %s redeclared with sort %s (was %s)", key, sort, old))
	}
	x.heapSorts[key] = sort
}

// heap returns the current incarnation of a heap array, creating the initial one on demand.
func (x *Exec) heap(st *State, key string) Term {
	if h, ok := st.heaps[key]; ok {
		return h
	}
	sort := x.mustSort(key)
	h := x.D.Const("H0_"+mangle(key), sort)
	st.heaps[key] = h
	// the entry snapshot must see the same initial incarnation
	if x.entry != nil {
		if _, ok := x.entry.heaps[key]; !ok {
			x.entry.heaps[key] = h
		}
	}
	return h
}

func (x *Exec) setHeap(st *State, key string, val Term) {
	sort := x.mustSort(key)
	n := x.D.Fresh("H_"+key, sort)
	st.Assume(Eq(n, val))
	st.heaps[key] = n
	st.heapTop[key] = st.top
	delete(st.fwd, key)
}

// storeAt writes value v at ref in the field/cell heap key and remembers it for forwarding.
func (x *Exec) storeAt(st *State, key string, ref, v Term) {
	x.setHeap(st, key, Store(x.heap(st, key), ref, v))
	st.fwd[key] = map[string]Term{ref.S: v}
}

// loadAt reads ref from heap key, forwarding the last store to the same (syntactic) reference.
func (x *Exec) loadAt(st *State, key string, ref Term) Term {
	if m, ok := st.fwd[key]; ok {
		if v, ok := m[ref.S]; ok {
			return v
		}
	}
	return Select(x.heap(st, key), ref)
}

// topOf returns the allocation frontier bounding every reference stored under key.
func (x *Exec) topOf(st *State, key string) Term {
	if t, ok := st.heapTop[key]; ok {
		return t
	}
	return mk(SInt, "top0")
}

// loadTop returns the frontier bounding a value loaded through p.
func (x *Exec) loadTop(st *State, p SymVal, elem types.Type) Term {
	switch a := p.(type) {
	case Term:
		if !isStruct(elem) {
			return x.topOf(st, x.cellHeapKey(elem))
		}
	case *Addr:
		if a.Kind != aLocal {
			return x.topOf(st, a.Key)
		}
	}
	return st.top
}

func (x *Exec) fieldHeapKey(structT types.Type, i int) (string, fieldInfo) {
	si := x.D.StructInfo(structT)
	k := fieldKey(si, i)
	if _, ok := x.heapSorts[k]; !ok {
		x.regHeap(k, ArrSort(SInt, si.fields[i].sort))
		if _, ok := x.W.keyReg[k]; !ok {
			x.W.keyReg[k] = func(y *Exec) { y.fieldHeapKey(structT, i) }
			x.W.fieldTypes[k] = si.fields[i].typ
			x.W.structTypes[si.key] = types.NewPointer(structT)
		}
	}
	return k, si.fields[i]
}

func (x *Exec) cellHeapKey(t types.Type) string {
	k := cellKey(t)
	if _, ok := x.heapSorts[k]; !ok {
		x.regHeap(k, ArrSort(SInt, x.D.SortOf(t)))
		if _, ok := x.W.keyReg[k]; !ok {
			x.W.keyReg[k] = func(y *Exec) { y.cellHeapKey(t) }
		}
	}
	return k
}

func (x *Exec) elemHeapKey(t types.Type) string {
	k := elemKey(t)
	if _, ok := x.heapSorts[k]; !ok {
		x.regHeap(k, ArrSort(SInt, ArrSort(SInt, x.D.SortOf(t))))
		if _, ok := x.W.keyReg[k]; !ok {
			x.W.keyReg[k] = func(y *Exec) { y.elemHeapKey(t) }
		}
	}
	return k
}

func (x *Exec) mapHeapKeys(m *types.Map) (string, string, string) {
	h, v, c := mapKeys(m)
	if _, ok := x.heapSorts[h]; !ok {
		ks := x.D.SortOf(m.Key())
		x.regHeap(h, ArrSort(SInt, ArrSort(ks, SBool)))
		x.regHeap(v, ArrSort(SInt, ArrSort(ks, x.D.SortOf(m.Elem()))))
		x.regHeap(c, ArrSort(SInt, SInt))
		if _, ok := x.W.keyReg[h]; !ok {
			f := func(y *Exec) { y.mapHeapKeys(m) }
			x.W.keyReg[h], x.W.keyReg[v], x.W.keyReg[c] = f, f, f
		}
	}
	return h, v, c
}

const (
	kChCap    = "ChCap"
	kChClosed = "ChClosed"
	kChLen    = "ChLen"
	kCtxDone  = "CtxDone"
)

func (x *Exec) regStdHeaps() {
	x.regHeap(kChCap, ArrSort(SInt, SInt))
	x.regHeap(kChClosed, ArrSort(SInt, SBool))
	x.regHeap(kChLen, ArrSort(SInt, SInt))
	x.regHeap(kCtxDone, ArrSort(SIface, SBool))
}

func isStruct(t types.Type) bool {
	_, ok := types.Unalias(t).Underlying().(*types.Struct)
	return ok
}

// navigate a root value along a path.
func nav(v Term, path []pathStep) Term {
	for _, s := range path {
		if s.idx != nil {
			v = Select(v, *s.idx)
		} else {
			f := s.si.fields[s.field]
			v = app(f.sort, f.acc, v)
		}
	}
	return v
}

// update a root value at path with nv.
func upd(v Term, path []pathStep, nv Term) Term {
	if len(path) == 0 {
		return nv
	}
	s := path[0]
	if s.idx != nil {
		return Store(v, *s.idx, upd(Select(v, *s.idx), path[1:], nv))
	}
	args := make([]Term, len(s.si.fields))
	for i, f := range s.si.fields {
		cur := app(f.sort, f.acc, v)
		if i == s.field {
			args[i] = upd(cur, path[1:], nv)
		} else {
			args[i] = cur
		}
	}
	return app(s.si.name, s.si.ctor, args...)
}

// loadStruct builds the datatype value of the heap object at ref.
func (x *Exec) loadStruct(st *State, ref Term, t types.Type) Term {
	si := x.D.StructInfo(t)
	if len(si.fields) == 0 {
		return mk(si.name, si.ctor)
	}
	args := make([]Term, len(si.fields))
	for i := range si.fields {
		k, _ := x.fieldHeapKey(t, i)
		args[i] = x.loadAt(st, k, ref)
	}
	return app(si.name, si.ctor, args...)
}

func (x *Exec) storeStruct(st *State, ref Term, t types.Type, v Term) {
	si := x.D.StructInfo(t)
	for i, f := range si.fields {
		k, _ := x.fieldHeapKey(t, i)
		x.storeAt(st, k, ref, app(f.sort, f.acc, v))
	}
}

// Load reads the content of the location denoted by a pointer-valued SymVal.
func (x *Exec) Load(st *State, p SymVal, elem types.Type) Term {
	switch a := p.(type) {
	case Term:
		if isStruct(elem) {
			return x.loadStruct(st, a, elem)
		}
		return x.loadAt(st, x.cellHeapKey(elem), a)
	case *Addr:
		switch a.Kind {
		case aLocal:
			root, ok := st.fr.locals[a.Alloc]
			if !ok {
				root = x.D.ZeroOf(a.Root)
				st.fr.locals[a.Alloc] = root
			}
			return nav(root, a.Path)
		case aField, aCell:
			return nav(x.loadAt(st, a.Key, a.Ref), a.Path)
		case aElem:
			return nav(Select(Select(x.heap(st, a.Key), a.Ref), a.Idx), a.Path)
		}
	}
	panic(fmt.Sprintf("Load: unsupported pointer value %T", p))
}

func (x *Exec) StoreTo(st *State, p SymVal, elem types.Type, v Term) {
	switch a := p.(type) {
	case Term:
		if isStruct(elem) {
			x.storeStruct(st, a, elem, v)
			return
		}
		k := x.cellHeapKey(elem)
		x.storeAt(st, k, a, v)
		return
	case *Addr:
		switch a.Kind {
		case aLocal:
			root, ok := st.fr.locals[a.Alloc]
			if !ok {
				root = x.D.ZeroOf(a.Root)
			}
			st.fr.locals[a.Alloc] = upd(root, a.Path, v)
			return
		case aField, aCell:
			if len(a.Path) == 0 {
				x.storeAt(st, a.Key, a.Ref, v)
				return
			}
			h := x.heap(st, a.Key)
			x.setHeap(st, a.Key, Store(h, a.Ref, upd(Select(h, a.Ref), a.Path, v)))
			return
		case aElem:
			h := x.heap(st, a.Key)
			row := Select(h, a.Ref)
			x.setHeap(st, a.Key, Store(h, a.Ref, Store(row, a.Idx, upd(Select(row, a.Idx), a.Path, v))))
			return
		}
	}
	panic(fmt.Sprintf("StoreTo: unsupported pointer value %T", p))
}

// newRef allocates a fresh object reference.
func (x *Exec) newRef(st *State, what string) Term {
	r := x.D.Fresh("ref_"+what, SInt)
	st.Assume(Eq(r, st.top))
	nt := x.D.Fresh("top", SInt)
	st.Assume(Eq(nt, Add(st.top, IntLit(1))))
	st.top = nt
	st.fresh[r.S] = true
	return r
}

func (x *Exec) allocStruct(st *State, t types.Type, what string) Term {
	r := x.newRef(st, what)
	x.storeStruct(st, r, t, x.D.ZeroOf(t))
	return r
}

// freshVal returns a fresh, well-formed value of Go type t.
func (x *Exec) freshVal(st *State, t types.Type, name string) Term {
	v := x.D.Fresh(name, x.D.SortOf(t))
	st.Assume(x.D.WF(v, t, st.top, 0))
	return v
}

// havocKey replaces a heap array by a fresh one, preserving unescaped fresh objects.
func (x *Exec) havocKey(st *State, key string) {
	old := x.heap(st, key)
	n := x.D.Fresh("H_"+key, x.mustSort(key))
	st.heaps[key] = n
	st.heapTop[key] = st.top
	delete(st.fwd, key)
	ks, _, _ := arrParts(n.Sort)
	if ks == SInt {
		for _, r := range sortedKeys(st.fresh) {
			st.Assume(Eq(Select(n, mk(SInt, r)), Select(old, mk(SInt, r))))
		}
	}
}

func (x *Exec) escape(st *State, v SymVal) {
	switch a := v.(type) {
	case Term:
		if a.Sort == SInt {
			delete(st.fresh, a.S)
		} else if a.Sort == SSlice || a.Sort == SIface || strings.HasPrefix(a.Sort, "S_") {
			// conservatively: anything reachable may escape; drop all freshness facts
			for k := range st.fresh {
				if strings.Contains(a.S, k) {
					delete(st.fresh, k)
				}
			}
		}
	case *Addr:
		if a.Kind != aLocal {
			delete(st.fresh, a.Ref.S)
		}
	case Tuple:
		for _, e := range a {
			x.escape(st, e)
		}
	case *FuncVal:
		for _, b := range a.Bindings {
			x.escape(st, b)
		}
	}
}

// ---------------------------------------------------------------- values

func (x *Exec) constTerm(c *ssa.Const) SymVal {
	t := c.Type()
	if c.Value == nil {
		return x.D.ZeroOf(t)
	}
	switch u := types.Unalias(t).Underlying().(type) {
	case *types.Basic:
		switch {
		case u.Info()&types.IsBoolean != 0:
			return BoolLit(constant.BoolVal(c.Value))
		case u.Info()&types.IsInteger != 0:
			s := c.Value.ExactString()
			if strings.HasPrefix(s, "-") {
				return mk(SInt, "(- "+s[1:]+")")
			}
			return mk(SInt, s)
		case u.Info()&types.IsString != 0:
			return x.D.StrConst(constant.StringVal(c.Value))
		case u.Info()&types.IsFloat != 0:
			f, _ := constant.Float64Val(c.Value)
			s := fmt.Sprintf("%f", f)
			if strings.HasPrefix(s, "-") {
				return mk(SReal, "(- "+s[1:]+")")
			}
			return mk(SReal, s)
		}
	}
	return x.D.ZeroOf(t)
}

func (x *Exec) globalRef(st *State, g *ssa.Global) Term {
	name := "glob_" + mangle(g.Pkg.Pkg.Name()+"."+g.Name())
	t := x.D.Const(name, SInt)
	if !x.W.globals[name] {
		x.W.globals[name] = true
		x.W.globalList = append(x.W.globalList, name)
	}
	return t
}

func (x *Exec) val(st *State, v ssa.Value) SymVal {
	switch c := v.(type) {
	case *ssa.Const:
		return x.constTerm(c)
	case *ssa.Global:
		return x.globalRef(st, c)
	case *ssa.Function:
		return &FuncVal{Fn: c, Handle: x.D.FuncHandle(c.String())}
	case *ssa.FreeVar:
		for i, fv := range st.fr.fn.FreeVars {
			if fv == c {
				return st.fr.free[i]
			}
		}
	case *ssa.Builtin:
		return c
	}
	if r, ok := st.fr.vals[v]; ok {
		return r
	}
	panic(fmt.Sprintf("no value for %s (%T) in %s", v.Name(), v, st.fr.fn))
}

// term converts a SymVal to a Term (for storing, passing, comparing).
func (x *Exec) term(st *State, v SymVal, t types.Type) Term {
	switch a := v.(type) {
	case Term:
		return a
	case *FuncVal:
		st.closures[a.Handle.S] = a
		return a.Handle
	case *Addr:
		// interior pointer escaping into a value: abstract by an injective uninterpreted pointer
		x.note("interior pointer abstracted at %s", x.name)
		switch a.Kind {
		case aField, aCell:
			if len(a.Path) == 0 {
				x.D.Fun("iptr_"+mangle(a.Key), []string{SInt}, SInt)
				return app(SInt, "iptr_"+mangle(a.Key), a.Ref)
			}
		}
		return x.D.Fresh("iptr", SInt)
	case *ssa.Builtin:
		return x.D.Fresh("builtin", SInt)
	case Tuple:
		panic("tuple used as term")
	case nil:
		return x.D.ZeroOf(t)
	}
	panic(fmt.Sprintf("term: unsupported %T", v))
}

func (x *Exec) tval(st *State, v ssa.Value) Term { return x.term(st, x.val(st, v), v.Type()) }

// ---------------------------------------------------------------- function setup

func (x *Exec) analyzeLoops() {
	x.loops = map[*ssa.BasicBlock]*loopInfo{}
	fn := x.fn
	for _, b := range fn.Blocks {
		for _, s := range b.Succs {
			if s.Dominates(b) { // back edge b -> s
				li := x.loops[s]
				if li == nil {
					li = &loopInfo{head: s, body: map[*ssa.BasicBlock]bool{s: true}}
					x.loops[s] = li
				}
				// natural loop: all blocks that reach b without passing through s
				stack := []*ssa.BasicBlock{b}
				for len(stack) > 0 {
					n := stack[len(stack)-1]
					stack = stack[:len(stack)-1]
					if li.body[n] {
						continue
					}
					li.body[n] = true
					stack = append(stack, n.Preds...)
				}
			}
		}
	}
	// order heads by block index for ordinals
	var heads []*ssa.BasicBlock
	for h := range x.loops {
		heads = append(heads, h)
	}
	sort.Slice(heads, func(i, j int) bool { return heads[i].Index < heads[j].Index })
	// AST loops
	var astLoops []ast.Node
	if syn := fn.Syntax(); syn != nil {
		ast.Inspect(syn, func(n ast.Node) bool {
			switch n.(type) {
			case *ast.ForStmt, *ast.RangeStmt:
				astLoops = append(astLoops, n)
			case *ast.FuncLit:
				if n != syn {
					return false
				}
			}
			return true
		})
	}
	for i, h := range heads {
		li := x.loops[h]
		li.ordinal = i + 1
		// minimal AST loop containing all positions of the loop's instructions
		var best ast.Node
		for _, al := range astLoops {
			ok := true
			any := false
			for b := range li.body {
				for _, in := range b.Instrs {
					p := in.Pos()
					if !p.IsValid() {
						continue
					}
					any = true
					if p < al.Pos() || p >= al.End() {
						ok = false
					}
				}
			}
			if ok && any && (best == nil || (al.End()-al.Pos()) < (best.End()-best.Pos())) {
				best = al
			}
		}
		if best != nil {
			li.stmt = best
			li.src = x.P.SrcLineFrom(best.Pos())
		}
		// range index
		for _, in := range h.Instrs {
			if ld, ok := in.(*ssa.UnOp); ok && ld.Op == token.MUL {
				if al, ok := ld.X.(*ssa.Alloc); ok && al.Comment == "rangeindex" {
					li.rangeIdx = al
				}
			}
			if b, ok := in.(*ssa.BinOp); ok && b.Op == token.LSS && li.rangeIdx != nil {
				li.rangeLen = b.Y
			}
		}
		if li.rangeIdx == nil {
			li.countVar = countingVar(li)
		}
		x.computeLoopMods(li)
	}
	// attach contracts: by the source text of the loop statement; contracts left over are
	// matched by position to the loops left over when their numbers agree, so that rewriting a
	// loop header (range <-> index form, renamed loop variable) is not contract drift
	if x.fc != nil {
		var left []*LoopContract
		for _, lc := range x.fc.Loops {
			found := false
			for _, h := range heads {
				li := x.loops[h]
				if li.lc == nil && li.src != "" && strings.HasPrefix(li.src, lc.Anchor) {
					li.lc = lc
					lc.Used++
					found = true
					break
				}
			}
			if !found {
				left = append(left, lc)
			}
		}
		if len(left) > 0 {
			// first through the baseline: the same position among the same number of loops
			if bf := loadBaseline().Funcs[x.name]; bf != nil {
				order := x.loopsInSourceOrder()
				var still []*LoopContract
				for _, lc := range left {
					done := false
					for _, bl := range bf.Loops {
						if bl.Anchor == lc.Anchor && bl.Total == len(order) && bl.Index < len(order) && order[bl.Index].lc == nil {
							order[bl.Index].lc = lc
							lc.Used++
							done = true
							x.note("loop contract %q matched through the baseline to loop %d of %d (%s)", lc.Anchor, bl.Index+1, bl.Total, order[bl.Index].src)
							break
						}
					}
					if !done {
						still = append(still, lc)
					}
				}
				left = still
			}
		}
		if len(left) > 0 {
			var free []*loopInfo
			for _, h := range heads {
				if li := x.loops[h]; li.lc == nil && li.stmt != nil {
					free = append(free, li)
				}
			}
			sort.SliceStable(free, func(i, j int) bool { return free[i].stmt.Pos() < free[j].stmt.Pos() })
			if len(free) == len(left) {
				for k, lc := range left {
					free[k].lc = lc
					lc.Used++
					x.note("loop contract %q matched by position to loop %d (%s)", lc.Anchor, free[k].ordinal, free[k].src)
				}
			}
		}
	}
}

// countBound: for a counting loop whose head tests `i < e` (or `i <= e`) with e computed in the head
// from state the loop does not modify, the comparison instruction; nil otherwise.
func (x *Exec) countBound(li *loopInfo) *ssa.BinOp {
	if li.countVar == nil {
		return nil
	}
	iff, ok := li.head.Instrs[len(li.head.Instrs)-1].(*ssa.If)
	if !ok {
		return nil
	}
	b, ok := iff.Cond.(*ssa.BinOp)
	if !ok || (b.Op != token.LSS && b.Op != token.LEQ) {
		return nil
	}
	if ld, ok := b.X.(*ssa.UnOp); !ok || ld.Op != token.MUL || ld.X != ssa.Value(li.countVar) {
		return nil
	}
	modLoc := map[*ssa.Alloc]bool{}
	for _, a := range li.modLoc {
		modLoc[a] = true
	}
	modKey := map[string]bool{}
	for _, k := range li.modKeys {
		modKey[k] = true
	}
	var constant func(v ssa.Value, d int) bool
	constant = func(v ssa.Value, d int) bool {
		if d > 8 {
			return false
		}
		switch u := v.(type) {
		case *ssa.Const, *ssa.Parameter:
			return true
		case *ssa.BinOp:
			return constant(u.X, d+1) && constant(u.Y, d+1)
		case *ssa.Call:
			if bi, ok := u.Call.Value.(*ssa.Builtin); ok && (bi.Name() == "len" || bi.Name() == "cap") && len(u.Call.Args) == 1 {
				if _, isMap := u.Call.Args[0].Type().Underlying().(*types.Map); isMap {
					return false
				}
				if _, isChan := u.Call.Args[0].Type().Underlying().(*types.Chan); isChan {
					return false
				}
				return constant(u.Call.Args[0], d+1)
			}
			return false
		case *ssa.UnOp:
			if u.Op != token.MUL {
				return false
			}
			switch a := u.X.(type) {
			case *ssa.Alloc:
				return !a.Heap && !modLoc[a]
			case *ssa.FieldAddr:
				st := derefType(a.X.Type())
				if st == nil || !isStruct(st) {
					return false
				}
				k, _ := x.fieldHeapKey(st, a.Field)
				return !modKey[k] && constant(a.X, d+1)
			}
			return false
		case *ssa.ChangeType:
			return constant(u.X, d+1)
		}
		return false
	}
	if !constant(b.Y, 0) {
		return nil
	}
	// the head must only read
	for _, in := range li.head.Instrs[:len(li.head.Instrs)-1] {
		switch i := in.(type) {
		case *ssa.UnOp, *ssa.BinOp, *ssa.FieldAddr, *ssa.DebugRef, *ssa.ChangeType, *ssa.Field:
			if u, ok := in.(*ssa.UnOp); ok && u.Op == token.ARROW {
				return nil
			}
		case *ssa.Call:
			if _, ok := i.Call.Value.(*ssa.Builtin); !ok {
				return nil
			}
		default:
			return nil
		}
	}
	return b
}

// peekBound evaluates the bound operand of a counting loop's test in a copy of st positioned at the head.
func (x *Exec) peekBound(st *State, li *loopInfo, b *ssa.BinOp) (y Term, ok bool) {
	defer func() {
		x.mute = false
		if r := recover(); r != nil {
			ok = false
		}
	}()
	q := st.clone()
	q.fr.blk = li.head
	x.mute = true
	for _, in := range li.head.Instrs[:len(li.head.Instrs)-1] {
		x.step(q, in)
		if q.dead {
			return Term{}, false
		}
	}
	y = x.tval(q, b.Y)
	if b.Op == token.LEQ {
		y = Add(y, IntLit(1))
	}
	return y, y.Sort == SInt
}

// countingVar recognises `for i := c; i < e; i++` (any initial value): the head compares a
// non-escaping local with something, and the only store to that local inside the loop adds 1.
func countingVar(li *loopInfo) *ssa.Alloc {
	var cand *ssa.Alloc
	for _, in := range li.head.Instrs {
		if b, ok := in.(*ssa.BinOp); ok && (b.Op == token.LSS || b.Op == token.LEQ || b.Op == token.NEQ) {
			if ld, ok := b.X.(*ssa.UnOp); ok && ld.Op == token.MUL {
				if al, ok := ld.X.(*ssa.Alloc); ok && !al.Heap {
					if bt, ok := derefType(al.Type()).Underlying().(*types.Basic); ok && bt.Info()&types.IsInteger != 0 {
						cand = al
					}
				}
			}
		}
	}
	if cand == nil {
		return nil
	}
	if _, ok := li.head.Instrs[len(li.head.Instrs)-1].(*ssa.If); !ok {
		return nil
	}
	stores := 0
	for b := range li.body {
		for _, in := range b.Instrs {
			st, ok := in.(*ssa.Store)
			if !ok || st.Addr != ssa.Value(cand) {
				continue
			}
			stores++
			add, ok := st.Val.(*ssa.BinOp)
			if !ok || add.Op != token.ADD {
				return nil
			}
			ld, ok := add.X.(*ssa.UnOp)
			if !ok || ld.Op != token.MUL || ld.X != ssa.Value(cand) {
				return nil
			}
			if c, ok := add.Y.(*ssa.Const); !ok || c.Value == nil || c.Value.ExactString() != "1" {
				return nil
			}
		}
	}
	// the address must not be taken otherwise
	if refs := cand.Referrers(); refs != nil {
		for _, r := range *refs {
			switch r := r.(type) {
			case *ssa.Store:
				if r.Addr != ssa.Value(cand) {
					return nil
				}
			case *ssa.UnOp, *ssa.DebugRef:
			default:
				return nil
			}
		}
	}
	if stores != 1 {
		return nil
	}
	return cand
}

// rootAlloc follows FieldAddr/IndexAddr chains to a non-escaping local Alloc.
func rootAlloc(v ssa.Value) *ssa.Alloc {
	for {
		switch a := v.(type) {
		case *ssa.Alloc:
			if !a.Heap {
				return a
			}
			return nil
		case *ssa.FieldAddr:
			v = a.X
		case *ssa.IndexAddr:
			if _, isPtr := a.X.Type().Underlying().(*types.Pointer); isPtr {
				v = a.X
			} else {
				return nil
			}
		default:
			return nil
		}
	}
}

func (x *Exec) computeLoopMods(li *loopInfo) {
	locs := map[*ssa.Alloc]bool{}
	keys := map[string]bool{}
	ghosts := map[string]bool{}
	for b := range li.body {
		for _, in := range b.Instrs {
			if al, ok := in.(*ssa.Alloc); ok && !al.Heap {
				locs[al] = true
			}
			if s, ok := in.(*ssa.Store); ok {
				if al := rootAlloc(s.Addr); al != nil {
					locs[al] = true
				}
			}
			if _, ok := in.(*ssa.Defer); ok {
				li.hasDefer = true
			}
			for k := range x.W.instrWrites(x, in) {
				keys[k] = true
			}
			addHook := func(h *Hook) {
				for _, a := range h.Actions {
					if a.Kind == "set" {
						if _, isHeap := x.CS.GhostHeaps[a.Var]; isHeap {
							x.regHeap("G!"+a.Var, x.CS.GhostHeaps[a.Var])
							keys["G!"+a.Var] = true
						} else {
							ghosts[a.Var] = true
						}
					}
				}
			}
			for _, h := range x.hooksAt[in] {
				addHook(h)
			}
			if ci, ok := in.(ssa.CallInstruction); ok {
				if callee := ci.Common().StaticCallee(); callee != nil && x.wouldInline(callee) {
					x.inlinedHookGhosts(callee, 1, map[*ssa.Function]bool{}, addHook)
				}
			}
			if nx, ok := in.(*ssa.Next); ok {
				if rg, ok := nx.Iter.(*ssa.Range); ok {
					ghosts["$visited_"+rg.Name()] = true
					ghosts["$visited_"+rg.Name()+"_n"] = true
				}
			}
			switch in.(type) {
			case *ssa.Select, *ssa.Send:
				keys[kCtxDone] = true
				keys[kChLen] = true
			case *ssa.UnOp:
				if in.(*ssa.UnOp).Op == token.ARROW {
					keys[kCtxDone] = true
					keys[kChLen] = true
				}
			}
		}
	}
	for a := range locs {
		li.modLoc = append(li.modLoc, a)
	}
	sort.Slice(li.modLoc, func(i, j int) bool { return li.modLoc[i].Name() < li.modLoc[j].Name() })
	li.modKeys = sortedKeys(keys)
	li.modGhost = sortedKeys(ghosts)
}

func anchorMatch(anchor, text string) bool {
	if anchor == "" || anchor == "*" {
		return true
	}
	if strings.HasSuffix(anchor, "*") {
		return strings.HasPrefix(text, strings.TrimSuffix(anchor, "*"))
	}
	return anchor == text
}

// eventText returns the hook kind and anchor text of an instruction.
func (x *Exec) eventTexts(in ssa.Instruction) map[string]string {
	out := map[string]string{}
	switch i := in.(type) {
	case *ssa.Call:
		f, _ := x.P.CallText(i.Pos())
		if b, ok := i.Call.Value.(*ssa.Builtin); ok && b.Name() == "close" {
			path := x.P.PathAt(i.Pos())
			for k := len(path) - 1; k >= 0; k-- {
				if ce, ok := path[k].(*ast.CallExpr); ok && len(ce.Args) == 1 {
					out["close"] = x.P.NodeText(ce.Args[0])
					break
				}
			}
			return out
		}
		if b, ok := i.Call.Value.(*ssa.Builtin); ok && b.Name() == "delete" {
			if n := fieldOfLoaded(i.Call.Args[0]); n != "" {
				out["delete"] = n
			} else {
				out["delete"] = "?"
			}
			return out
		}
		out["call"] = f
		_, whole := x.P.CallText(i.Pos())
		out["callfull"] = whole
	case *ssa.MapUpdate:
		if n := fieldOfLoaded(i.Map); n != "" {
			out["mapupdate"] = n
		} else {
			out["mapupdate"] = i.Map.Name()
		}
	case *ssa.Go:
		f, _ := x.P.CallText(i.Pos())
		if f == "" {
			f, _ = x.P.CallText(i.Call.Pos())
		}
		out["go"] = f
	case *ssa.Defer:
		f, _ := x.P.CallText(i.Pos())
		if f == "" {
			f, _ = x.P.CallText(i.Call.Pos())
		}
		out["defer"] = f
	case *ssa.Send:
		path := x.P.PathAt(i.Pos())
		for k := len(path) - 1; k >= 0; k-- {
			if s, ok := path[k].(*ast.SendStmt); ok {
				out["send"] = x.P.NodeText(s.Chan)
				break
			}
		}
	case *ssa.UnOp:
		if i.Op == token.ARROW {
			out["recv"] = x.recvText(i.Pos())
		}
	case *ssa.Return:
		out["return"] = ""
	case *ssa.Store:
		// anchor: Type.field of the assigned struct field
		if fa, ok := i.Addr.(*ssa.FieldAddr); ok {
			if st := derefType(fa.X.Type()); st != nil {
				if s, ok := types.Unalias(st).Underlying().(*types.Struct); ok {
					n := structName(st)
					if k := strings.Index(n, "."); k >= 0 {
						n = n[k+1:]
					}
					out["store"] = n + "." + s.Field(fa.Field).Name()
				}
			}
		}
	}
	return out
}

func (x *Exec) recvText(pos token.Pos) string {
	path := x.P.PathAt(pos)
	for k := len(path) - 1; k >= 0; k-- {
		if u, ok := path[k].(*ast.UnaryExpr); ok && u.Op == token.ARROW {
			return x.P.NodeText(u.X)
		}
	}
	return ""
}

func (x *Exec) sendText(pos token.Pos) string {
	path := x.P.PathAt(pos)
	for k := len(path) - 1; k >= 0; k-- {
		if s, ok := path[k].(*ast.SendStmt); ok {
			return x.P.NodeText(s.Chan)
		}
	}
	return ""
}

// mapHooks attaches hooks to instructions: by the text of their anchors, and - for a hook whose
// text selects nothing any more - by the source-independent identity recorded in the baseline.
func (x *Exec) mapHooks() {
	x.mapHooksText()
	if x.fc == nil || x.fn == nil {
		return
	}
	bf := loadBaseline().Funcs[x.name]
	if bf == nil {
		return
	}
	x.identHooks = map[*Hook]map[string]bool{}
	for hi, h := range x.fc.Hooks {
		if h.Used > 0 || hi >= len(bf.Hooks) {
			continue
		}
		bh := bf.Hooks[hi]
		if !bh.Exact || bh.Kind != h.Kind || bh.Anchor != h.Anchor {
			continue
		}
		set := map[string]bool{}
		for _, id := range bh.Idents {
			set[id] = true
		}
		var walk func(f *ssa.Function)
		walk = func(f *ssa.Function) {
			for _, b := range f.Blocks {
				for _, in := range b.Instrs {
					for _, id := range x.instrIdentities(in)[h.Kind] {
						if set[id] {
							x.hooksAt[in] = append(x.hooksAt[in], h)
							h.Used++
							x.identHooks[h] = set
							x.note("hook on %s %q matched through the baseline identity %s", h.Kind, h.Anchor, id)
							break
						}
					}
				}
			}
			for _, a := range f.AnonFuncs {
				walk(a)
			}
		}
		walk(x.fn)
	}
}

func (x *Exec) mapHooksText() {
	x.hooksAt = map[ssa.Instruction][]*Hook{}
	if x.fc == nil || len(x.fc.Hooks) == 0 {
		return
	}
	var walk func(fn *ssa.Function)
	walk = func(fn *ssa.Function) {
		for _, b := range fn.Blocks {
			for _, in := range b.Instrs {
				evs := x.eventTexts(in)
				for _, h := range x.fc.Hooks {
					if h.Kind == "select" {
						if sel, ok := in.(*ssa.Select); ok && sel.Blocking {
							x.hooksAt[in] = append(x.hooksAt[in], h)
							h.Used++
						}
						continue
					}
					if h.Kind == "default" {
						// the default branch of a non-blocking select: "nothing was ready" was observed
						if sel, ok := in.(*ssa.Select); ok && !sel.Blocking {
							x.hooksAt[in] = append(x.hooksAt[in], h)
							h.Used++
						}
						continue
					}
					if h.Kind == "recv" || h.Kind == "send" {
						if sel, ok := in.(*ssa.Select); ok {
							for _, s := range sel.States {
								var txt string
								if s.Dir == types.RecvOnly {
									txt = x.recvText(s.Pos)
									if h.Kind == "recv" && anchorMatch(h.Anchor, txt) {
										x.hooksAt[in] = append(x.hooksAt[in], h)
										h.Used++
									}
								} else {
									txt = x.sendText(s.Pos)
									if h.Kind == "send" && anchorMatch(h.Anchor, txt) {
										x.hooksAt[in] = append(x.hooksAt[in], h)
										h.Used++
									}
								}
							}
							continue
						}
					}
					if txt, ok := evs[h.Kind]; ok && anchorMatch(h.Anchor, txt) {
						x.hooksAt[in] = append(x.hooksAt[in], h)
						h.Used++
					} else if h.Kind == "call" {
						if whole, ok := evs["callfull"]; ok && strings.HasSuffix(h.Anchor, "*") && anchorMatch(h.Anchor, whole) {
							x.hooksAt[in] = append(x.hooksAt[in], h)
							h.Used++
						}
					}
				}
			}
		}
	}
	walk(x.fn)
	var anon func(fn *ssa.Function)
	anon = func(fn *ssa.Function) {
		for _, a := range fn.AnonFuncs {
			walk(a)
			anon(a)
		}
	}
	anon(x.fn)
	// store / map update / delete hooks are anchored at Type.field, not at source text: they
	// also fire inside callees that are inlined (a map write moved into a small helper)
	seen := map[*ssa.Function]bool{x.fn: true}
	var inl func(fn *ssa.Function, depth int)
	inl = func(fn *ssa.Function, depth int) {
		if depth > maxInlineDepth {
			return
		}
		for _, b := range fn.Blocks {
			for _, in := range b.Instrs {
				ci, ok := in.(ssa.CallInstruction)
				if !ok {
					continue
				}
				callee := ci.Common().StaticCallee()
				if callee == nil || seen[callee] || !x.wouldInline(callee) {
					continue
				}
				seen[callee] = true
				for _, cb := range callee.Blocks {
					for _, cin := range cb.Instrs {
						evs := x.eventTexts(cin)
						for _, h := range x.fc.Hooks {
							if h.Kind != "store" && h.Kind != "mapupdate" && h.Kind != "delete" {
								continue
							}
							if txt, ok := evs[h.Kind]; ok && anchorMatch(h.Anchor, txt) {
								x.hooksAt[cin] = append(x.hooksAt[cin], h)
								h.Used++
							}
						}
					}
				}
				inl(callee, depth+1)
			}
		}
	}
	inl(x.fn, 1)
	for _, a := range x.fn.AnonFuncs {
		inl(a, 1)
	}
}

// wouldInline tells (statically) whether a call of callee is executed by inlining its body.
func (x *Exec) wouldInline(callee *ssa.Function) bool {
	if callee.Pkg == nil || !x.P.Verified[callee.Pkg.Pkg.Path()] || len(callee.Blocks) == 0 || callee.Parent() != nil {
		return false
	}
	fc := x.W.ContractFor(callee)
	if fc != nil && !fc.Inline && (fc.Trusted || len(fc.Ensures) > 0 || len(fc.Requires) > 0 || fc.Pure || hasLoops(callee)) {
		return false
	}
	return !hasLoops(callee) || (fc != nil && fc.Inline)
}

// inlinedHookGhosts collects the ghosts set by hooks mapped inside callees that are inlined.
func (x *Exec) inlinedHookGhosts(fn *ssa.Function, depth int, seen map[*ssa.Function]bool, add func(h *Hook)) {
	if depth > maxInlineDepth || seen[fn] {
		return
	}
	seen[fn] = true
	for _, b := range fn.Blocks {
		for _, in := range b.Instrs {
			for _, h := range x.hooksAt[in] {
				add(h)
			}
			if ci, ok := in.(ssa.CallInstruction); ok {
				if callee := ci.Common().StaticCallee(); callee != nil && x.wouldInline(callee) {
					x.inlinedHookGhosts(callee, depth+1, seen, add)
				}
			}
		}
	}
}
