package eng

import (
	"bufio"
	"fmt"
	"os"
	"regexp"
	"strings"
)

// Clause is one tagged contract expression.
type Clause struct {
	Tags []string // e.g. C01.a
	Text string
	E    *Expr
	File string
	Line int
	Name string // optional explicit obligation name
}

func (c *Clause) TagStr() string { return strings.Join(c.Tags, ",") }

type GhostDecl struct {
	Name   string
	Sort   string
	GoType string // set when the ghost was declared with a Go type instead of an SMT sort
	Init   *Clause
}

type Action struct {
	Kind  string // assert | assume | set
	After bool   // run after the event (results available)
	Var   string // for set
	C     *Clause
}

type Hook struct {
	Kind    string // call | go | defer | recv | send | close | return | select
	Anchor  string // textual anchor matched against the source of the event
	Bind    string // name bound to the received/sent value
	Actions []Action
	Used    int
	File    string
	Line    int
	// Optional ("on call? ..."): the event need not occur in the function; the hook only observes it
	// when it does (alternative ways of reading the same state)
	Optional bool
}

type LoopContract struct {
	Enter      []Action // ghost assignments executed on loop entry
	Exit       []Action // ghost assignments executed when the loop ends at its head (not by break or return)
	Anchor     string
	Invariants []*Clause
	Decreases  *Clause
	Used       int
	File       string
	Line       int
}

type FuncContract struct {
	Name         string
	Props        []string
	Requires     []*Clause
	Ensures      []*Clause
	Ghosts       []GhostDecl
	Loops        []*LoopContract
	Hooks        []*Hook
	Mode         string // sequential | concurrent
	Trusted      bool   // stub: body not verified
	Pure         bool   // result is an uninterpreted function of the arguments (and named heap reads)
	Inline       bool
	NoPanicProps []string // properties for which no-panic obligations of this function count
	Blocks       string   // effect: never | ctx | parent | unbounded
	Modifies     []string // explicit additions to the write set (stubs)
	Reads        []string
	File         string
	Line         int
	Entry        bool // verified with concurrent callers in mind
	Opts         map[string]string
	Uses         []string   // lemmas assumed at entry (each is proved separately)
	PureNames    []string   // spec functions naming the results of a pure stub
	FreshFuns    []*SpecFun // uninterpreted functions, fresh at every application of the contract
}

type Monitor struct {
	Lock       string   // Struct.field
	Allows     []string // external blocking calls accepted while the lock is held
	Props      []string
	Guards     []string
	Invariants []*Clause
	File       string
	Line       int
}

type FieldMode struct {
	Field string // Struct.field
	Mode  string // guarded_by | atomic | immutable | writers | confined
	Args  []string
	File  string
	Line  int
}

type SpecFun struct {
	Name   string
	Params []string // sorts
	PNames []string
	Ret    string
	Body   *Clause // nil: uninterpreted
	RawSMT string
	Rec    bool
}

type Lemma struct {
	Name    string
	Tags    []string
	C       *Clause
	Trusted bool // axiom
	Vars    []string
	Uses    []string
}

type ChanProto struct {
	Field string
	Proto string
}

// Contracts holds everything parsed from the contract and stub files.
type Contracts struct {
	Funcs       map[string]*FuncContract
	Monitors    map[string]*Monitor
	Fields      map[string]*FieldMode
	FieldModes  map[string][]*FieldMode
	SpecFuns    []*SpecFun
	Lemmas      []*Lemma
	Order       []string
	Files       []string
	Assumptions []string          // mechanical scan: trusted / axiom / assume lines
	FunTypes    map[string]string // named func type -> spec function giving its (pure) result
	RawSMT      []string          // raw declarations added to every verification context
	GhostHeaps  map[string]string // global ghost state: name -> sort
	Globals     map[string][]string // package-level variables declared immutable after init: name -> props
	Growing     map[string][]string // struct T growing f... props P...: the only container fields of T that may grow
}

func NewContracts() *Contracts {
	return &Contracts{Funcs: map[string]*FuncContract{}, Monitors: map[string]*Monitor{}, Fields: map[string]*FieldMode{}, FieldModes: map[string][]*FieldMode{}, GhostHeaps: map[string]string{}, FunTypes: map[string]string{}, Globals: map[string][]string{}}
}

var tagRe = regexp.MustCompile(`^\[([^\]]*)\]`)

func parseClause(rest, file string, line int) (*Clause, error) {
	c := &Clause{File: file, Line: line}
	rest = strings.TrimSpace(rest)
	if m := tagRe.FindStringSubmatch(rest); m != nil {
		for _, t := range strings.Split(m[1], ",") {
			t = strings.TrimSpace(t)
			if t != "" {
				c.Tags = append(c.Tags, t)
			}
		}
		rest = strings.TrimSpace(rest[len(m[0]):])
	}
	c.Text = rest
	e, err := ParseExpr(rest)
	if err != nil {
		return nil, fmt.Errorf("%s:%d: %v", file, line, err)
	}
	c.E = e
	return c, nil
}

func unquote(s string) string {
	s = strings.TrimSpace(s)
	if len(s) >= 2 && (s[0] == '"' || s[0] == '`') && s[len(s)-1] == s[0] {
		return s[1 : len(s)-1]
	}
	return s
}

// ParseFile reads one contract file. Lines of interest start with "//@".
func (cs *Contracts) ParseFile(path string) error {
	f, err := os.Open(path)
	if err != nil {
		return err
	}
	defer f.Close()
	cs.Files = append(cs.Files, path)
	sc := bufio.NewScanner(f)
	sc.Buffer(make([]byte, 1<<20), 1<<20)
	var lines []string
	var linenos []int
	n := 0
	cont := false
	for sc.Scan() {
		n++
		l := sc.Text()
		t := strings.TrimSpace(l)
		if !strings.HasPrefix(t, "//@") {
			cont = false
			continue
		}
		body := strings.TrimSpace(t[3:])
		if i := strings.Index(body, " //"); i >= 0 { // trailing comment
			body = strings.TrimSpace(body[:i])
		}
		if body == "" {
			continue
		}
		endsCont := strings.HasSuffix(body, "\\")
		if endsCont {
			body = strings.TrimSpace(strings.TrimSuffix(body, "\\"))
		}
		if cont {
			lines[len(lines)-1] += " " + body
		} else {
			lines = append(lines, body)
			linenos = append(linenos, n)
		}
		cont = endsCont
	}
	var cur *FuncContract
	var curLoop *LoopContract
	var curHook *Hook
	var curMon *Monitor
	for i, l := range lines {
		ln := linenos[i]
		kw, rest := l, ""
		if j := strings.IndexAny(l, " \t["); j >= 0 {
			kw, rest = l[:j], strings.TrimSpace(l[j:])
		}
		fail := func(err error) error { return fmt.Errorf("%s:%d: %v", path, ln, err) }
		switch kw {
		case "func", "stub":
			name := strings.TrimSpace(rest)
			cur = &FuncContract{Name: name, File: path, Line: ln, Mode: "sequential", Opts: map[string]string{}}
			if kw == "stub" {
				cur.Trusted = true
				cs.Assumptions = append(cs.Assumptions, fmt.Sprintf("trusted stub contract for %s (%s:%d)", name, shortPath(path), ln))
			}
			if _, dup := cs.Funcs[name]; dup {
				return fail(fmt.Errorf("duplicate contract for %s", name))
			}
			cs.Funcs[name] = cur
			cs.Order = append(cs.Order, name)
			curLoop, curHook, curMon = nil, nil, nil
		case "props":
			if cur == nil {
				return fail(fmt.Errorf("props outside func"))
			}
			cur.Props = append(cur.Props, strings.Fields(rest)...)
		case "nopanic":
			cur.NoPanicProps = append(cur.NoPanicProps, strings.Fields(rest)...)
		case "mode":
			cur.Mode = strings.TrimSpace(rest)
		case "pure":
			cur.Pure = true
			cur.PureNames = strings.Fields(rest)
		case "inline":
			cur.Inline = true
		case "trusted":
			cur.Trusted = true
			cs.Assumptions = append(cs.Assumptions, fmt.Sprintf("trusted contract for %s (%s:%d)", cur.Name, shortPath(path), ln))
		case "blocks":
			cur.Blocks = strings.TrimSpace(rest)
		case "modifies":
			cur.Modifies = append(cur.Modifies, strings.Fields(rest)...)
		case "freshfun":
			sf, err := parseSpecFunHead(rest)
			if err != nil {
				return fail(err)
			}
			cur.FreshFuns = append(cur.FreshFuns, sf)
		case "uses":
			if cur != nil {
				cur.Uses = append(cur.Uses, strings.Fields(rest)...)
			} else if len(cs.Lemmas) > 0 {
				l := cs.Lemmas[len(cs.Lemmas)-1]
				l.Uses = append(l.Uses, strings.Fields(rest)...)
			}
		case "opt":
			kv := strings.SplitN(rest, "=", 2)
			if len(kv) == 2 {
				cur.Opts[strings.TrimSpace(kv[0])] = strings.TrimSpace(kv[1])
			} else {
				cur.Opts[strings.TrimSpace(rest)] = "true"
			}
		case "requires", "ensures":
			if cur == nil {
				return fail(fmt.Errorf("%s outside func", kw))
			}
			c, err := parseClause(rest, path, ln)
			if err != nil {
				return err
			}
			if kw == "requires" {
				cur.Requires = append(cur.Requires, c)
			} else {
				cur.Ensures = append(cur.Ensures, c)
			}
			curLoop, curHook = nil, nil
		case "ghost":
			// ghost name sort = init
			parts := strings.SplitN(rest, "=", 2)
			if len(parts) != 2 {
				return fail(fmt.Errorf("ghost needs '= init'"))
			}
			hd := strings.TrimSpace(parts[0])
			sp := strings.IndexAny(hd, " \t")
			if sp < 0 {
				return fail(fmt.Errorf("ghost needs a sort"))
			}
			c, err := parseClause(parts[1], path, ln)
			if err != nil {
				return err
			}
			cur.Ghosts = append(cur.Ghosts, GhostDecl{Name: hd[:sp], Sort: strings.TrimSpace(hd[sp:]), Init: c})
		case "loop":
			curLoop = &LoopContract{Anchor: unquote(rest), File: path, Line: ln}
			cur.Loops = append(cur.Loops, curLoop)
			curHook = nil
		case "invariant":
			c, err := parseClause(rest, path, ln)
			if err != nil {
				return err
			}
			if curMon != nil {
				curMon.Invariants = append(curMon.Invariants, c)
			} else if curLoop != nil {
				curLoop.Invariants = append(curLoop.Invariants, c)
			} else {
				return fail(fmt.Errorf("invariant outside loop/monitor"))
			}
		case "enter":
			// enter set var = expr
			if curLoop == nil {
				return fail(fmt.Errorf("enter outside loop"))
			}
			r2 := strings.TrimSpace(strings.TrimPrefix(strings.TrimSpace(rest), "set"))
			parts := strings.SplitN(r2, "=", 2)
			if len(parts) != 2 {
				return fail(fmt.Errorf("enter set var = expr"))
			}
			c, err := parseClause(parts[1], path, ln)
			if err != nil {
				return err
			}
			curLoop.Enter = append(curLoop.Enter, Action{Kind: "set", Var: strings.TrimSpace(parts[0]), C: c})
		case "exit":
			// exit set var = expr: when the loop's own test ends it (the edge from the loop head out of the loop)
			if curLoop == nil {
				return fail(fmt.Errorf("exit outside loop"))
			}
			r2 := strings.TrimSpace(strings.TrimPrefix(strings.TrimSpace(rest), "set"))
			parts := strings.SplitN(r2, "=", 2)
			if len(parts) != 2 {
				return fail(fmt.Errorf("exit set var = expr"))
			}
			c, err := parseClause(parts[1], path, ln)
			if err != nil {
				return err
			}
			curLoop.Exit = append(curLoop.Exit, Action{Kind: "set", Var: strings.TrimSpace(parts[0]), C: c})
		case "decreases":
			c, err := parseClause(rest, path, ln)
			if err != nil {
				return err
			}
			curLoop.Decreases = c
		case "on":
			// on <kind> "<anchor>" [as name]
			fs := strings.Fields(rest)
			if len(fs) < 1 {
				return fail(fmt.Errorf("on needs a kind"))
			}
			h := &Hook{Kind: strings.TrimSuffix(fs[0], "?"), Optional: strings.HasSuffix(fs[0], "?"), File: path, Line: ln}
			r2 := strings.TrimSpace(rest[len(fs[0]):])
			if strings.HasPrefix(r2, "\"") || strings.HasPrefix(r2, "`") {
				q := r2[0]
				end := strings.IndexByte(r2[1:], q)
				if end < 0 {
					return fail(fmt.Errorf("unterminated anchor"))
				}
				h.Anchor = r2[1 : 1+end]
				r2 = strings.TrimSpace(r2[end+2:])
			}
			if strings.HasPrefix(r2, "as ") {
				h.Bind = strings.TrimSpace(r2[3:])
			}
			cur.Hooks = append(cur.Hooks, h)
			curHook = h
			curLoop = nil
		case "assert", "assume", "set", "after", "nonblocking":
			if curHook == nil {
				return fail(fmt.Errorf("%s outside an 'on' hook", kw))
			}
			a := Action{Kind: kw}
			if kw == "after" {
				a.After = true
				fs := strings.SplitN(rest, " ", 2)
				a.Kind = fs[0]
				if i := strings.Index(fs[0], "["); i >= 0 {
					a.Kind = fs[0][:i]
					rest = rest[i:]
				} else if len(fs) > 1 {
					rest = fs[1]
				} else {
					rest = ""
				}
			}
			if a.Kind == "set" {
				parts := strings.SplitN(rest, "=", 2)
				if len(parts) != 2 {
					return fail(fmt.Errorf("set needs var = expr"))
				}
				a.Var = strings.TrimSpace(parts[0])
				rest = parts[1]
			}
			c, err := parseClause(rest, path, ln)
			if err != nil {
				return err
			}
			a.C = c
			if a.Kind == "assume" {
				cs.Assumptions = append(cs.Assumptions, fmt.Sprintf("assume in %s at %s %q: %s (%s:%d)", cur.Name, curHook.Kind, curHook.Anchor, c.Text, shortPath(path), ln))
			}
			curHook.Actions = append(curHook.Actions, a)
		case "monitor":
			fs := strings.Fields(rest)
			if len(fs) < 1 {
				return fail(fmt.Errorf("monitor needs a lock"))
			}
			curMon = &Monitor{Lock: fs[0], File: path, Line: ln}
			sec := "guards"
			for _, g := range fs[1:] {
				switch g {
				case "guards", "allows", "props":
					sec = g
					continue
				}
				switch sec {
				case "guards":
					curMon.Guards = append(curMon.Guards, g)
				case "allows":
					curMon.Allows = append(curMon.Allows, g)
				case "props":
					curMon.Props = append(curMon.Props, g)
				}
			}
			cs.Monitors[fs[0]] = curMon
			cur, curLoop, curHook = nil, nil, nil
		case "field":
			fs := strings.Fields(rest)
			if len(fs) < 2 {
				return fail(fmt.Errorf("field needs a name and a mode"))
			}
			fm := &FieldMode{Field: fs[0], Mode: fs[1], Args: fs[2:], File: path, Line: ln}
			if _, ok := cs.Fields[fs[0]]; !ok || fs[1] == "closeonly" {
				cs.Fields[fs[0]] = fm
			}
			cs.FieldModes[fs[0]] = append(cs.FieldModes[fs[0]], fm)
		case "struct":
			// struct T growing f1 f2 ... props P...: a closed-world frame for a long-lived object - elements are
			// inserted only into the listed map/slice fields of T (each of which has its own contracts)
			fs := strings.Fields(rest)
			if len(fs) < 2 || fs[1] != "growing" {
				return fail(fmt.Errorf("struct T growing f... [props ...]"))
			}
			if cs.Growing == nil {
				cs.Growing = map[string][]string{}
			}
			cs.Growing[fs[0]] = fs[2:]
			cur, curLoop, curHook = nil, nil, nil
		case "global":
			// global NAME immutable props P...: the package-level variable is only assigned by the package initialiser
			fs := strings.Fields(rest)
			if len(fs) < 2 || fs[1] != "immutable" {
				return fail(fmt.Errorf("global NAME immutable [props ...]"))
			}
			var props []string
			for i, a := range fs {
				if a == "props" {
					props = fs[i+1:]
				}
			}
			cs.Globals[fs[0]] = props
			cur, curLoop, curHook = nil, nil, nil
		case "ghostheap":
			sp := strings.IndexAny(rest, " \t")
			if sp < 0 {
				return fail(fmt.Errorf("ghostheap NAME SORT"))
			}
			cs.GhostHeaps[rest[:sp]] = strings.TrimSpace(rest[sp:])
		case "smtdecl":
			cs.RawSMT = append(cs.RawSMT, rest)
			if fs := strings.Fields(rest); len(fs) >= 2 && fs[0] == "(declare-sort" {
				extraSorts[fs[1]] = true
			}
		case "funtype":
			fs := strings.Fields(rest)
			if len(fs) != 3 || fs[1] != "pure" {
				return fail(fmt.Errorf("funtype NAME pure SPECFUN"))
			}
			cs.FunTypes[fs[0]] = fs[2]
			cs.Assumptions = append(cs.Assumptions, fmt.Sprintf("function values of type %s are pure and deterministic during a call (%s:%d)", fs[0], shortPath(path), ln))
		case "specfun":
			// specfun name(Sort, Sort) Ret
			sf, err := parseSpecFunHead(rest)
			if err != nil {
				return fail(err)
			}
			cs.SpecFuns = append(cs.SpecFuns, sf)
		case "define", "definerec":
			// define name(x Sort, y Sort) Ret = smt("...") | expr
			parts := strings.SplitN(rest, "=", 2)
			if len(parts) != 2 {
				return fail(fmt.Errorf("define needs '='"))
			}
			sf, err := parseSpecFunHead(parts[0])
			if err != nil {
				return fail(err)
			}
			sf.Rec = kw == "definerec"
			c, err := parseClause(parts[1], path, ln)
			if err != nil {
				return err
			}
			sf.Body = c
			cs.SpecFuns = append(cs.SpecFuns, sf)
		case "axiom", "lemma":
			// lemma name [tags] (x Sort, y Sort): expr
			colon := strings.Index(rest, ":")
			if colon < 0 {
				return fail(fmt.Errorf("%s needs 'name: expr'", kw))
			}
			hd := strings.TrimSpace(rest[:colon])
			lm := &Lemma{Trusted: kw == "axiom"}
			cur, curLoop, curHook, curMon = nil, nil, nil, nil
			if i := strings.Index(hd, "("); i >= 0 {
				vs := strings.TrimSuffix(strings.TrimSpace(hd[i+1:]), ")")
				for _, v := range strings.Split(vs, ",") {
					if v = strings.TrimSpace(v); v != "" {
						lm.Vars = append(lm.Vars, v)
					}
				}
				hd = strings.TrimSpace(hd[:i])
			}
			if i := strings.Index(hd, "["); i >= 0 {
				for _, t := range strings.Split(strings.Trim(hd[i:], "[] "), ",") {
					lm.Tags = append(lm.Tags, strings.TrimSpace(t))
				}
				hd = strings.TrimSpace(hd[:i])
			}
			lm.Name = hd
			c, err := parseClause(rest[colon+1:], path, ln)
			if err != nil {
				return err
			}
			lm.C = c
			if lm.Trusted {
				cs.Assumptions = append(cs.Assumptions, fmt.Sprintf("axiom %s: %s (%s:%d)", lm.Name, c.Text, shortPath(path), ln))
			}
			cs.Lemmas = append(cs.Lemmas, lm)
		default:
			return fail(fmt.Errorf("unknown contract keyword %q", kw))
		}
	}
	return nil
}

func parseSpecFunHead(s string) (*SpecFun, error) {
	s = strings.TrimSpace(s)
	lp := strings.Index(s, "(")
	rp := strings.LastIndex(s, ")")
	if lp < 0 || rp < lp {
		return nil, fmt.Errorf("bad spec function head %q", s)
	}
	sf := &SpecFun{Name: strings.TrimSpace(s[:lp]), Ret: strings.TrimSpace(s[rp+1:])}
	// split params at top-level commas
	depth := 0
	start := lp + 1
	flush := func(end int) {
		p := strings.TrimSpace(s[start:end])
		if p == "" {
			return
		}
		// "name Sort" or "Sort"
		if sp := strings.IndexAny(p, " \t"); sp > 0 && !strings.HasPrefix(p, "(") {
			sf.PNames = append(sf.PNames, p[:sp])
			sf.Params = append(sf.Params, strings.TrimSpace(p[sp:]))
		} else {
			sf.PNames = append(sf.PNames, fmt.Sprintf("x%d", len(sf.Params)))
			sf.Params = append(sf.Params, p)
		}
	}
	for i := lp + 1; i < rp; i++ {
		switch s[i] {
		case '(':
			depth++
		case ')':
			depth--
		case ',':
			if depth == 0 {
				flush(i)
				start = i + 1
			}
		}
	}
	flush(rp)
	return sf, nil
}

func shortPath(p string) string {
	p = strings.TrimPrefix(p, "/repo/")
	p = strings.TrimPrefix(p, "/verif/")
	return p
}
