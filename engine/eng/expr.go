package eng

import (
	"fmt"
	"strings"
	"unicode"
)

// Expr is a contract-language expression.
type Expr struct {
	Kind string // ident | int | str | bool | unary | binary | call | sel | index | tassert | raw
	Op   string // operator, identifier name, function name, field name
	Args []*Expr
	Lit  string
	Pos  int
}

func (e *Expr) String() string {
	switch e.Kind {
	case "ident":
		return e.Op
	case "int", "bool":
		return e.Lit
	case "str":
		return fmt.Sprintf("%q", e.Lit)
	case "raw":
		return "smt(" + e.Lit + ")"
	case "unary":
		return e.Op + e.Args[0].String()
	case "binary":
		return "(" + e.Args[0].String() + " " + e.Op + " " + e.Args[1].String() + ")"
	case "call":
		var as []string
		for _, a := range e.Args {
			as = append(as, a.String())
		}
		return e.Op + "(" + strings.Join(as, ", ") + ")"
	case "sel":
		return e.Args[0].String() + "." + e.Op
	case "index":
		return e.Args[0].String() + "[" + e.Args[1].String() + "]"
	case "tassert":
		return e.Args[0].String() + ".(" + e.Lit + ")"
	}
	return "?"
}

type etok struct {
	kind string // id int str op eof
	s    string
	pos  int
}

func lex(src string) ([]etok, error) {
	var ts []etok
	i := 0
	for i < len(src) {
		c := src[i]
		switch {
		case c == ' ' || c == '\t' || c == '\n':
			i++
		case unicode.IsLetter(rune(c)) || c == '_':
			j := i
			for j < len(src) && (unicode.IsLetter(rune(src[j])) || unicode.IsDigit(rune(src[j])) || src[j] == '_' || src[j] == '$' || src[j] == '#') {
				j++
			}
			ts = append(ts, etok{"id", src[i:j], i})
			i = j
		case unicode.IsDigit(rune(c)):
			j := i
			for j < len(src) && (unicode.IsDigit(rune(src[j])) || src[j] == '.') {
				j++
			}
			ts = append(ts, etok{"int", src[i:j], i})
			i = j
		case c == '"' || c == '`':
			j := i + 1
			for j < len(src) && src[j] != c {
				j++
			}
			if j >= len(src) {
				return nil, fmt.Errorf("unterminated string at %d", i)
			}
			ts = append(ts, etok{"str", src[i+1 : j], i})
			i = j + 1
		default:
			for _, op := range []string{"<==>", "==>", "==", "!=", "<=", ">=", "&&", "||", "+", "-", "*", "/", "%", "<", ">", "!", "(", ")", "[", "]", ",", ".", "?", ":"} {
				if strings.HasPrefix(src[i:], op) {
					ts = append(ts, etok{"op", op, i})
					i += len(op)
					goto next
				}
			}
			return nil, fmt.Errorf("unexpected character %q at %d", c, i)
		next:
		}
	}
	ts = append(ts, etok{"eof", "", len(src)})
	return ts, nil
}

type eparser struct {
	ts  []etok
	i   int
	src string
}

func ParseExpr(src string) (*Expr, error) {
	ts, err := lex(src)
	if err != nil {
		return nil, fmt.Errorf("%v in %q", err, src)
	}
	p := &eparser{ts: ts, src: src}
	e, err := p.expr(0)
	if err != nil {
		return nil, fmt.Errorf("%v in %q", err, src)
	}
	if p.peek().kind != "eof" {
		return nil, fmt.Errorf("trailing input at %d (%q) in %q", p.peek().pos, p.peek().s, src)
	}
	return e, nil
}

func (p *eparser) peek() etok { return p.ts[p.i] }
func (p *eparser) next() etok { t := p.ts[p.i]; p.i++; return t }
func (p *eparser) isOp(s string) bool {
	t := p.peek()
	return t.kind == "op" && t.s == s
}
func (p *eparser) expect(s string) error {
	if !p.isOp(s) {
		return fmt.Errorf("expected %q at %d, got %q", s, p.peek().pos, p.peek().s)
	}
	p.i++
	return nil
}

var binPrec = map[string]int{
	"<==>": 1, "==>": 2, "||": 3, "&&": 4,
	"==": 5, "!=": 5, "<": 5, "<=": 5, ">": 5, ">=": 5,
	"+": 6, "-": 6, "*": 7, "/": 7, "%": 7,
}

func (p *eparser) expr(minPrec int) (*Expr, error) {
	lhs, err := p.unary()
	if err != nil {
		return nil, err
	}
	for {
		t := p.peek()
		if t.kind != "op" {
			break
		}
		if t.s == "?" && minPrec <= 0 {
			p.i++
			a, err := p.expr(0)
			if err != nil {
				return nil, err
			}
			if err := p.expect(":"); err != nil {
				return nil, err
			}
			b, err := p.expr(0)
			if err != nil {
				return nil, err
			}
			lhs = &Expr{Kind: "call", Op: "ite", Args: []*Expr{lhs, a, b}, Pos: t.pos}
			continue
		}
		prec, ok := binPrec[t.s]
		if !ok || prec < minPrec {
			break
		}
		p.i++
		nextMin := prec + 1
		if t.s == "==>" {
			nextMin = prec // right associative
		}
		rhs, err := p.expr(nextMin)
		if err != nil {
			return nil, err
		}
		lhs = &Expr{Kind: "binary", Op: t.s, Args: []*Expr{lhs, rhs}, Pos: t.pos}
	}
	return lhs, nil
}

func (p *eparser) unary() (*Expr, error) {
	t := p.peek()
	if t.kind == "op" && (t.s == "!" || t.s == "-") {
		p.i++
		x, err := p.unary()
		if err != nil {
			return nil, err
		}
		return &Expr{Kind: "unary", Op: t.s, Args: []*Expr{x}, Pos: t.pos}, nil
	}
	return p.postfix()
}

func (p *eparser) postfix() (*Expr, error) {
	x, err := p.primary()
	if err != nil {
		return nil, err
	}
	for {
		switch {
		case p.isOp("."):
			p.i++
			if p.isOp("(") {
				// type assertion x.(T): T is read as raw text up to the matching paren
				start := p.peek().pos + 1
				depth := 0
				for {
					t := p.next()
					if t.kind == "eof" {
						return nil, fmt.Errorf("unterminated type assertion")
					}
					if t.kind == "op" && t.s == "(" {
						depth++
					}
					if t.kind == "op" && t.s == ")" {
						depth--
						if depth == 0 {
							x = &Expr{Kind: "tassert", Args: []*Expr{x}, Lit: strings.TrimSpace(p.src[start:t.pos]), Pos: t.pos}
							break
						}
					}
				}
				continue
			}
			t := p.next()
			if t.kind != "id" {
				return nil, fmt.Errorf("expected field name at %d", t.pos)
			}
			x = &Expr{Kind: "sel", Op: t.s, Args: []*Expr{x}, Pos: t.pos}
		case p.isOp("["):
			p.i++
			idx, err := p.expr(0)
			if err != nil {
				return nil, err
			}
			if err := p.expect("]"); err != nil {
				return nil, err
			}
			x = &Expr{Kind: "index", Args: []*Expr{x, idx}}
		default:
			return x, nil
		}
	}
}

func (p *eparser) primary() (*Expr, error) {
	t := p.next()
	switch t.kind {
	case "int":
		return &Expr{Kind: "int", Lit: t.s, Pos: t.pos}, nil
	case "str":
		return &Expr{Kind: "str", Lit: t.s, Pos: t.pos}, nil
	case "id":
		if t.s == "true" || t.s == "false" {
			return &Expr{Kind: "bool", Lit: t.s, Pos: t.pos}, nil
		}
		if p.isOp("(") {
			p.i++
			var args []*Expr
			for !p.isOp(")") {
				a, err := p.expr(0)
				if err != nil {
					return nil, err
				}
				args = append(args, a)
				if p.isOp(",") {
					p.i++
				} else if !p.isOp(")") {
					return nil, fmt.Errorf("expected , or ) at %d", p.peek().pos)
				}
			}
			p.i++
			if t.s == "smt" && len(args) == 1 && args[0].Kind == "str" {
				return &Expr{Kind: "raw", Lit: args[0].Lit, Pos: t.pos}, nil
			}
			return &Expr{Kind: "call", Op: t.s, Args: args, Pos: t.pos}, nil
		}
		return &Expr{Kind: "ident", Op: t.s, Pos: t.pos}, nil
	case "op":
		if t.s == "(" {
			e, err := p.expr(0)
			if err != nil {
				return nil, err
			}
			if err := p.expect(")"); err != nil {
				return nil, err
			}
			return e, nil
		}
	}
	return nil, fmt.Errorf("unexpected token %q at %d", t.s, t.pos)
}
