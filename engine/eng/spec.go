package eng

import (
	"fmt"
	"go/constant"
	"go/types"
	"strings"

	"golang.org/x/tools/go/ssa"
)

type Bound struct {
	V SymVal
	T types.Type
}

// Env is the evaluation environment of a contract expression.
type Env struct {
	x           *Exec
	st          *State
	old         *State
	binds       map[string]Bound
	paramsEntry bool
	pkg         string
	noLocals    bool
	qwf         *[]Term           // well-formedness facts of heap reads that mention bound variables
	live        *State            // state that receives facts discovered during evaluation (defaults to st)
	funs        map[string]string // contract-local function symbols (freshfun)
	funSorts    map[string]string
}

func (e *Env) liveState() *State {
	if e.live != nil {
		return e.live
	}
	return e.st
}

type nilMarker struct{}

type specErr struct{ msg string }

func (x *Exec) specFail(c *Clause, format string, a ...interface{}) {
	panic(specErr{fmt.Sprintf("%s:%d: %s (in %q)", shortPath(c.File), c.Line, fmt.Sprintf(format, a...), c.Text)})
}

func (x *Exec) rootFrame(st *State) *Frame {
	f := st.fr
	for f != nil && f.parent != nil {
		f = f.parent
	}
	return f
}

// envAt builds an environment for the verified function at the current state.
func (x *Exec) envAt(st *State) *Env {
	old := x.entry
	if old == nil {
		old = st
	}
	return &Env{x: x, st: st, old: old, binds: map[string]Bound{}, pkg: x.pkgPath()}
}

func (e *Env) child() *Env {
	n := *e
	n.binds = make(map[string]Bound, len(e.binds)+2)
	for k, v := range e.binds {
		n.binds[k] = v
	}
	return &n
}

func (x *Exec) evalBool(env *Env, c *Clause) Term {
	v, _ := x.eval(env, c, c.E)
	t, ok := v.(Term)
	if !ok || t.Sort != SBool {
		x.specFail(c, "expected a boolean expression, got %v", v)
	}
	return t
}

func (x *Exec) evalTerm(env *Env, c *Clause) Term {
	v, _ := x.eval(env, c, c.E)
	t, ok := v.(Term)
	if !ok {
		if fv, ok := v.(*FuncVal); ok {
			return fv.Handle
		}
		x.specFail(c, "expected a term, got %T", v)
	}
	return t
}

func (x *Exec) asTerm(env *Env, c *Clause, v SymVal, t types.Type, want string) Term {
	switch a := v.(type) {
	case Term:
		return a
	case nilMarker:
		switch want {
		case SIface:
			return NilI
		case SSlice:
			return NilSl
		default:
			return Zero
		}
	case *FuncVal:
		env.st.closures[a.Handle.S] = a
		return a.Handle
	case *Addr:
		if t != nil {
			return x.Load(env.st, a, t)
		}
	}
	x.specFail(c, "cannot use %T as a term", v)
	return Term{}
}

// findLocal finds the Alloc of a named local/param/result in the verified function.
func (x *Exec) findLocal(name string) *ssa.Alloc {
	if x.fn == nil {
		return nil
	}
	ord := 1
	if i := strings.Index(name, "#"); i >= 0 {
		fmt.Sscanf(name[i+1:], "%d", &ord)
		name = name[:i]
	}
	n := 0
	for _, b := range x.fn.Blocks {
		for _, in := range b.Instrs {
			if a, ok := in.(*ssa.Alloc); ok && a.Comment == name {
				n++
				if n == ord {
					return a
				}
			}
		}
	}
	return nil
}

func (x *Exec) lookupIdent(env *Env, c *Clause, name string) (SymVal, types.Type) {
	if b, ok := env.binds[name]; ok {
		return b.V, b.T
	}
	if name == "nil" {
		return nilMarker{}, nil
	}
	if g, ok := env.st.ghost[name]; ok {
		return g, x.ghostTypes[name]
	}
	if gs, ok := x.CS.GhostHeaps[name]; ok {
		x.regHeap("G!"+name, gs)
		return x.heap(env.st, "G!"+name), nil
	}
	if name == "idx" || name == "rangelen" {
		// range index of the loop whose head is the current block
		fr := x.rootFrame(env.st)
		li := x.curLoop
		if li == nil {
			li = x.loops[fr.blk]
		}
		if li != nil && li.rangeIdx != nil {
			if name == "idx" {
				ri, ok := fr.locals[li.rangeIdx]
				if !ok {
					ri = IntLit(-1)
				}
				return Add(ri, IntLit(1)), types.Typ[types.Int]
			}
			if li.rangeLen != nil {
				if lv, ok := fr.vals[li.rangeLen]; ok {
					return lv, types.Typ[types.Int]
				}
			}
		}
		if name == "idx" {
			// counting loop `for i := 0; i < e; i++`: idx is the number of completed iterations at the
			// loop head and the 1-based number of the current iteration inside the body, as for range loops
			if li != nil && li.countVar != nil && li == x.curLoop {
				if v, ok := fr.locals[li.countVar]; ok {
					return v, types.Typ[types.Int]
				}
			}
			var best *loopInfo
			for _, l2 := range x.loops {
				if l2.body[fr.blk] && l2.countVar != nil && l2.rangeIdx == nil && (best == nil || len(l2.body) < len(best.body)) {
					best = l2
				}
			}
			if best != nil {
				inRange := false
				for _, l2 := range x.loops {
					if l2.body[fr.blk] && l2.rangeIdx != nil && len(l2.body) < len(best.body) {
						inRange = true
					}
				}
				if v, ok := fr.locals[best.countVar]; ok && !inRange {
					return Add(v, IntLit(1)), types.Typ[types.Int]
				}
			}
		}
		// innermost enclosing loop with a range index
		for _, li := range x.loops {
			if li.body[fr.blk] && li.rangeIdx != nil {
				if name == "idx" {
					ri, ok := fr.locals[li.rangeIdx]
					if ok {
						return Add(ri, IntLit(1)), types.Typ[types.Int]
					}
				} else if li.rangeLen != nil {
					if lv, ok := fr.vals[li.rangeLen]; ok {
						return lv, types.Typ[types.Int]
					}
				}
			}
		}
		x.specFail(c, "%s used outside a range loop", name)
	}
	if !env.noLocals && x.fn != nil {
		fr := x.rootFrame(env.st)
		if fr != nil && fr.fn == x.fn {
			if env.paramsEntry {
				for _, p := range x.fn.Params {
					if p.Name() == name {
						if v, ok := x.entryParams[p]; ok {
							return v, p.Type()
						}
					}
				}
			}
			a := x.findLocal(name)
			if a == nil {
				// a renamed parameter: its entry value where the contract speaks about the entry state, its
				// spill slot (if it has one) or its value otherwise - exactly as under its own name
				if p := x.W.paramAlias(x.fn, name); p != nil {
					x.note("contract identifier %q resolved to parameter %q (same position) through the baseline", name, p.Name())
					if env.paramsEntry {
						if v, ok := x.entryParams[p]; ok {
							return v, p.Type()
						}
					}
					if a2 := x.findLocal(p.Name()); a2 != nil {
						a = a2
					} else if v, ok := fr.vals[p]; ok {
						return v, p.Type()
					}
				}
			}
			if a == nil {
				a = x.baselineLocal(name)
			}
			if a != nil {
				t := derefType(a.Type())
				if a.Heap {
					if pv, ok := fr.vals[a]; ok {
						return x.Load(env.st, pv, t), t
					}
					return x.D.ZeroOf(t), t
				}
				if v, ok := fr.locals[a]; ok {
					return v, t
				}
				return x.D.ZeroOf(t), t
			}
			// free variables of closures: pointer to the captured variable
			for i, fv := range x.fn.FreeVars {
				if fv.Name() == name && i < len(fr.free) {
					t := derefType(fv.Type())
					return x.Load(env.st, fr.free[i], t), t
				}
			}
		}
	}
	// package scope
	if pk := x.P.Pkgs[env.pkg]; pk != nil {
		if obj := pk.Types.Scope().Lookup(name); obj != nil {
			return x.objValue(env, c, obj)
		}
	}
	x.specFail(c, "unknown identifier %s", name)
	return nil, nil
}

func (x *Exec) objValue(env *Env, c *Clause, obj types.Object) (SymVal, types.Type) {
	switch o := obj.(type) {
	case *types.Const:
		switch o.Val().Kind() {
		case constant.Int:
			s := o.Val().ExactString()
			if strings.HasPrefix(s, "-") {
				return mk(SInt, "(- "+s[1:]+")"), o.Type()
			}
			return mk(SInt, s), o.Type()
		case constant.Bool:
			return BoolLit(constant.BoolVal(o.Val())), o.Type()
		case constant.String:
			return x.D.StrConst(constant.StringVal(o.Val())), o.Type()
		}
	case *types.Var:
		sp := x.P.SSA.Package(o.Pkg())
		if sp != nil {
			if g, ok := sp.Members[o.Name()].(*ssa.Global); ok {
				ref := x.globalRef(env.st, g)
				return x.Load(env.st, ref, o.Type()), o.Type()
			}
		}
	case *types.Func:
		sp := x.P.SSA.Package(o.Pkg())
		if sp != nil {
			if f := sp.Func(o.Name()); f != nil {
				return &FuncVal{Fn: f, Handle: x.D.FuncHandle(f.String())}, o.Type()
			}
		}
	}
	x.specFail(c, "cannot evaluate %s", obj.Name())
	return nil, nil
}

// resolveType resolves a type written in a contract.
func (x *Exec) resolveType(env *Env, c *Clause, s string) types.Type {
	s = strings.TrimSpace(s)
	if strings.HasPrefix(s, "*") {
		return types.NewPointer(x.resolveType(env, c, s[1:]))
	}
	if strings.HasPrefix(s, "[]") {
		return types.NewSlice(x.resolveType(env, c, s[2:]))
	}
	switch s {
	case "int":
		return types.Typ[types.Int]
	case "uint32":
		return types.Typ[types.Uint32]
	case "uint64":
		return types.Typ[types.Uint64]
	case "string":
		return types.Typ[types.String]
	case "bool":
		return types.Typ[types.Bool]
	case "error":
		return types.Universe.Lookup("error").Type()
	}
	if i := strings.LastIndex(s, "."); i >= 0 {
		pn, tn := s[:i], s[i+1:]
		if tp := x.P.FindPackage(pn); tp != nil {
			if obj := tp.Scope().Lookup(tn); obj != nil {
				return obj.Type()
			}
		}
		x.specFail(c, "unknown type %s", s)
	}
	if pk := x.P.Pkgs[env.pkg]; pk != nil {
		if obj := pk.Types.Scope().Lookup(s); obj != nil {
			if _, ok := obj.(*types.TypeName); ok {
				return obj.Type()
			}
		}
	}
	x.specFail(c, "unknown type %s", s)
	return nil
}

var extraSorts = map[string]bool{}

func isSMTSort(s string) bool {
	switch s {
	case SInt, SBool, SReal, SStr, SIface, SSlice:
		return true
	}
	if extraSorts[s] {
		return true
	}
	return strings.HasPrefix(s, "(Array ")
}

// eval evaluates a contract expression.
func (x *Exec) eval(env *Env, c *Clause, e *Expr) (SymVal, types.Type) {
	switch e.Kind {
	case "int":
		if strings.Contains(e.Lit, ".") {
			return mk(SReal, e.Lit), types.Typ[types.Float64]
		}
		return mk(SInt, e.Lit), types.Typ[types.Int]
	case "bool":
		return BoolLit(e.Lit == "true"), types.Typ[types.Bool]
	case "str":
		return x.D.StrConst(e.Lit), types.Typ[types.String]
	case "raw":
		return mk(SBool, e.Lit), nil
	case "ident":
		return x.lookupIdent(env, c, e.Op)
	case "unary":
		v, t := x.eval(env, c, e.Args[0])
		tt := x.asTerm(env, c, v, t, "")
		if e.Op == "!" {
			if tt.Sort != SBool {
				x.specFail(c, "! applied to non-boolean")
			}
			return Not(tt), t
		}
		return app(tt.Sort, "-", tt), t
	case "binary":
		return x.evalBinary(env, c, e)
	case "sel":
		return x.evalSel(env, c, e)
	case "index":
		return x.evalIndex(env, c, e)
	case "tassert":
		v, vt := x.eval(env, c, e.Args[0])
		t := x.resolveType(env, c, e.Lit)
		iv := x.asTerm(env, c, v, vt, SIface)
		if _, isI := t.Underlying().(*types.Interface); isI {
			return iv, t
		}
		return x.unbox(env.st, iv, t), t
	case "call":
		return x.evalCall(env, c, e)
	}
	x.specFail(c, "cannot evaluate %s", e)
	return nil, nil
}

func (x *Exec) evalBinary(env *Env, c *Clause, e *Expr) (SymVal, types.Type) {
	lv, lt := x.eval(env, c, e.Args[0])
	// short-circuit friendly: evaluate rhs always (pure)
	rv, rt := x.eval(env, c, e.Args[1])
	_, lnil := lv.(nilMarker)
	_, rnil := rv.(nilMarker)
	var a, b Term
	switch {
	case lnil && rnil:
		a, b = Zero, Zero
	case lnil:
		b = x.asTerm(env, c, rv, rt, "")
		a = x.asTerm(env, c, lv, nil, b.Sort)
	case rnil:
		a = x.asTerm(env, c, lv, lt, "")
		b = x.asTerm(env, c, rv, nil, a.Sort)
	default:
		a = x.asTerm(env, c, lv, lt, "")
		b = x.asTerm(env, c, rv, rt, "")
	}
	boolT := types.Typ[types.Bool]
	switch e.Op {
	case "==", "!=":
		var eq Term
		switch {
		case (lnil || rnil) && a.Sort == SIface:
			if lnil {
				eq = Eq(ITy(b), Zero)
			} else {
				eq = Eq(ITy(a), Zero)
			}
		case (lnil || rnil) && a.Sort == SSlice:
			if lnil {
				eq = Eq(SlBase(b), Zero)
			} else {
				eq = Eq(SlBase(a), Zero)
			}
		default:
			if a.Sort != b.Sort {
				x.specFail(c, "comparison of %s with %s", a.Sort, b.Sort)
			}
			eq = Eq(a, b)
		}
		if e.Op == "!=" {
			return Not(eq), boolT
		}
		return eq, boolT
	case "&&":
		return And(a, b), boolT
	case "||":
		return Or(a, b), boolT
	case "==>":
		return Implies(a, b), boolT
	case "<==>":
		return Eq(a, b), boolT
	case "<":
		return Lt(a, b), boolT
	case "<=":
		return Le(a, b), boolT
	case ">":
		return Gt(a, b), boolT
	case ">=":
		return Ge(a, b), boolT
	case "+":
		return Add(a, b), lt
	case "-":
		return Sub(a, b), lt
	case "*":
		return Mul(a, b), lt
	case "/":
		return app(SInt, "div", a, b), lt
	case "%":
		return app(SInt, "mod", a, b), lt
	}
	x.specFail(c, "unknown operator %s", e.Op)
	return nil, nil
}

// heapReadWF records the type invariant of a reference read from the heap in a
// specification: unconditionally when the term is ground, as a quantifier antecedent otherwise.
func (x *Exec) heapReadWF(env *Env, v Term, t types.Type, key string) {
	switch types.Unalias(t).Underlying().(type) {
	case *types.Pointer, *types.Chan, *types.Map, *types.Slice, *types.Interface:
	default:
		return
	}
	wf := x.D.WF(v, t, x.topOf(env.st, key), 0)
	if strings.Contains(v.S, "q!") || strings.Contains(v.S, "lv!") {
		if env.qwf != nil {
			*env.qwf = append(*env.qwf, wf)
		}
		return
	}
	env.liveState().Assume(wf)
}

// fieldPath resolves a (possibly promoted) field of t.
func fieldPath(t types.Type, name string) ([]int, *types.Var) {
	obj, idx, _ := types.LookupFieldOrMethod(t, true, nil, name)
	if obj == nil {
		// unexported fields need the defining package
		var pkg *types.Package
		tt := t
		if p, ok := types.Unalias(tt).Underlying().(*types.Pointer); ok {
			tt = p.Elem()
		}
		if n, ok := types.Unalias(tt).(*types.Named); ok {
			pkg = n.Obj().Pkg()
		}
		obj, idx, _ = types.LookupFieldOrMethod(t, true, pkg, name)
	}
	v, ok := obj.(*types.Var)
	if !ok {
		return nil, nil
	}
	return idx, v
}

func (x *Exec) evalSel(env *Env, c *Clause, e *Expr) (SymVal, types.Type) {
	// package-qualified identifier (pkg.Name)
	if b := e.Args[0]; b.Kind == "ident" {
		_, bound := env.binds[b.Op]
		_, ghost := env.st.ghost[b.Op]
		if !bound && !ghost && x.findLocal(b.Op) == nil && (x.fn == nil || x.baselineLocal(b.Op) == nil) {
			if pk := x.P.Pkgs[env.pkg]; pk == nil || pk.Types.Scope().Lookup(b.Op) == nil {
				if tp := x.P.FindPackage(b.Op); tp != nil {
					if obj := tp.Scope().Lookup(e.Op); obj != nil {
						return x.objValue(env, c, obj)
					}
				}
			}
		}
	}
	bv, bt := x.eval(env, c, e.Args[0])
	if bt == nil {
		x.specFail(c, "field %s of a value without Go type", e.Op)
	}
	idx, fvar := fieldPath(bt, e.Op)
	if fvar == nil {
		x.specFail(c, "type %s has no field %s", bt, e.Op)
	}
	cur := x.asTerm(env, c, bv, bt, "")
	ct := bt
	for _, i := range idx {
		if p, ok := types.Unalias(ct).Underlying().(*types.Pointer); ok {
			st := p.Elem()
			k, f := x.fieldHeapKey(st, i)
			cur = x.loadAt(env.st, k, cur)
			ct = f.typ
			x.heapReadWF(env, cur, ct, k)
			continue
		}
		si := x.D.StructInfo(ct)
		f := si.fields[i]
		cur = app(f.sort, f.acc, cur)
		ct = f.typ
	}
	return cur, ct
}

func (x *Exec) evalIndex(env *Env, c *Clause, e *Expr) (SymVal, types.Type) {
	bv, bt := x.eval(env, c, e.Args[0])
	iv, it := x.eval(env, c, e.Args[1])
	b := x.asTerm(env, c, bv, bt, "")
	i := x.asTerm(env, c, iv, it, "")
	if bt != nil {
		switch u := types.Unalias(bt).Underlying().(type) {
		case *types.Slice:
			k := x.elemHeapKey(u.Elem())
			ev := Select(Select(x.heap(env.st, k), SlBase(b)), SlIdx(b, i))
			x.heapReadWF(env, ev, u.Elem(), k)
			return ev, u.Elem()
		case *types.Map:
			_, vk, _ := x.mapHeapKeys(u)
			mv := Select(Select(x.heap(env.st, vk), b), i)
			x.heapReadWF(env, mv, u.Elem(), vk)
			return mv, u.Elem()
		case *types.Array:
			return Select(b, i), u.Elem()
		}
	}
	if _, _, ok := arrParts(b.Sort); ok {
		return Select(b, i), nil
	}
	x.specFail(c, "cannot index %s", b.Sort)
	return nil, nil
}

func (x *Exec) quant(env *Env, c *Clause, e *Expr, forall bool) (SymVal, types.Type) {
	// forall(i, lo, hi, P) | forall(v, P) | forall(v, "GoType", P)
	if len(e.Args) < 2 || e.Args[0].Kind != "ident" {
		x.specFail(c, "malformed quantifier")
	}
	name := e.Args[0].Op
	x.W.qn++
	qv := mk(SInt, fmt.Sprintf("q!%s!%d", name, x.W.qn))
	env2 := env.child()
	var gt types.Type = types.Typ[types.Int]
	var guard Term = True
	var body *Expr
	sort := SInt
	switch len(e.Args) {
	case 4:
		lo := x.asTermE(env, c, e.Args[1])
		hi := x.asTermE(env, c, e.Args[2])
		guard = And(Le(lo, qv), Lt(qv, hi))
		body = e.Args[3]
	case 3:
		if e.Args[1].Kind != "str" {
			x.specFail(c, "typed quantifier needs a type string")
		}
		if isSMTSort(e.Args[1].Lit) {
			sort = e.Args[1].Lit
			qv.Sort = sort
			gt = nil
		} else {
			gt = x.resolveType(env, c, e.Args[1].Lit)
			sort = x.D.SortOf(gt)
			qv.Sort = sort
			guard = x.D.WF(qv, gt, env.st.top, 0)
		}
		body = e.Args[2]
	case 2:
		body = e.Args[1]
	}
	env2.binds[name] = Bound{V: qv, T: gt}
	var wfs []Term
	env2.qwf = &wfs
	// with(body, t1, t2, ...): explicit instantiation triggers for this quantifier
	var trigs []Term
	if body.Kind == "call" && body.Op == "with" && len(body.Args) >= 2 {
		for _, te := range body.Args[1:] {
			tv, tt := x.eval(env2, c, te)
			trigs = append(trigs, x.asTerm(env2, c, tv, tt, ""))
		}
		body = body.Args[0]
	}
	bv, _ := x.eval(env2, c, body)
	bt, ok := bv.(Term)
	if !ok || bt.Sort != SBool {
		x.specFail(c, "quantifier body must be boolean")
	}
	// heap values read under the quantifier are well-formed: stated as separate closed facts
	for _, w := range wfs {
		if strings.Contains(w.S, qv.S) {
			w = mk(SBool, fmt.Sprintf("(forall ((%s %s)) %s)", qv.S, sort, Implies(guard, w).S))
		}
		if strings.Contains(w.S, "q!") && strings.Contains(strings.ReplaceAll(w.S, qv.S, ""), "q!") && env.qwf != nil {
			*env.qwf = append(*env.qwf, w)
			continue
		}
		if env.qwf != nil && (strings.Contains(strings.ReplaceAll(w.S, qv.S, ""), "q!")) {
			*env.qwf = append(*env.qwf, w)
			continue
		}
		env.liveState().Assume(w)
	}
	if forall {
		inner := Implies(guard, bt).S
		if len(trigs) > 0 {
			var ps []string
			for _, t := range trigs {
				ps = append(ps, ":pattern ("+t.S+")")
			}
			inner = "(! " + inner + " " + strings.Join(ps, " ") + ")"
		}
		return mk(SBool, fmt.Sprintf("(forall ((%s %s)) %s)", qv.S, sort, inner)), types.Typ[types.Bool]
	}
	return mk(SBool, fmt.Sprintf("(exists ((%s %s)) %s)", qv.S, sort, And(guard, bt).S)), types.Typ[types.Bool]
}

func (x *Exec) asTermE(env *Env, c *Clause, e *Expr) Term {
	v, t := x.eval(env, c, e)
	return x.asTerm(env, c, v, t, "")
}

// lockArg evaluates an expression denoting a mutex field to (key, ref).
func (x *Exec) lockArg(env *Env, c *Clause, e *Expr) (string, Term) {
	if e.Kind != "sel" {
		x.specFail(c, "lock expression must be a field selection")
	}
	bv, bt := x.eval(env, c, e.Args[0])
	b := x.asTerm(env, c, bv, bt, "")
	st := derefType(bt)
	if st == nil {
		x.specFail(c, "lock owner must be a pointer")
	}
	idx, _ := fieldPath(bt, e.Op)
	if len(idx) != 1 {
		x.specFail(c, "no lock field %s", e.Op)
	}
	k, _ := x.fieldHeapKey(st, idx[0])
	return k, b
}

func (x *Exec) evalCall(env *Env, c *Clause, e *Expr) (SymVal, types.Type) {
	boolT := types.Typ[types.Bool]
	intT := types.Typ[types.Int]
	argT := func(i int) Term { return x.asTermE(env, c, e.Args[i]) }
	need := func(n int) {
		if len(e.Args) != n {
			x.specFail(c, "%s expects %d arguments", e.Op, n)
		}
	}
	switch e.Op {
	case "old":
		need(1)
		env2 := env.child()
		env2.live = env.liveState()
		env2.st = env.old
		env2.paramsEntry = true
		return x.eval(env2, c, e.Args[0])
	case "forall", "all":
		return x.quant(env, c, e, true)
	case "exists", "any":
		return x.quant(env, c, e, false)
	case "implies":
		need(2)
		return Implies(argT(0), argT(1)), boolT
	case "ite":
		need(3)
		a, at := x.eval(env, c, e.Args[1])
		b, bt := x.eval(env, c, e.Args[2])
		_, an := a.(nilMarker)
		_, bn := b.(nilMarker)
		var ta, tb Term
		if an && !bn {
			tb = x.asTerm(env, c, b, bt, "")
			ta = x.asTerm(env, c, a, nil, tb.Sort)
			at = bt
		} else {
			ta = x.asTerm(env, c, a, at, "")
			tb = x.asTerm(env, c, b, bt, ta.Sort)
		}
		return Ite(argT(0), ta, tb), at
	case "len":
		need(1)
		v, t := x.eval(env, c, e.Args[0])
		tv := x.asTerm(env, c, v, t, "")
		if t != nil {
			switch u := types.Unalias(t).Underlying().(type) {
			case *types.Slice:
				return SlLen(tv), intT
			case *types.Map:
				_, _, ck := x.mapHeapKeys(u)
				return Ite(Eq(tv, Zero), Zero, Select(x.heap(env.st, ck), tv)), intT
			case *types.Basic:
				return app(SInt, "strlen", tv), intT
			}
		}
		if tv.Sort == SSlice {
			return SlLen(tv), intT
		}
		x.specFail(c, "len of %s", tv.Sort)
	case "cap":
		need(1)
		v, t := x.eval(env, c, e.Args[0])
		tv := x.asTerm(env, c, v, t, "")
		if tv.Sort == SSlice {
			return SlCap(tv), intT
		}
		return Select(x.heap(env.st, kChCap), tv), intT
	case "mhas", "mval":
		need(1)
		mv, mt := x.eval(env, c, e.Args[0])
		m := x.asTerm(env, c, mv, mt, "")
		u, ok := types.Unalias(mt).Underlying().(*types.Map)
		if !ok {
			x.specFail(c, "%s of non-map", e.Op)
		}
		hk, vk, _ := x.mapHeapKeys(u)
		if e.Op == "mhas" {
			return Select(x.heap(env.st, hk), m), nil
		}
		return Select(x.heap(env.st, vk), m), nil
	case "at":
		// at(S, "T", i): element i of a (ghost) slice value S whose elements have Go type T
		need(3)
		sv := argT(0)
		t := x.resolveType(env, c, e.Args[1].Lit)
		k := x.elemHeapKey(t)
		ev := Select(Select(x.heap(env.st, k), SlBase(sv)), SlIdx(sv, argT(2)))
		x.heapReadWF(env, ev, t, k)
		return ev, t
	case "elems":
		// elems("T"): the element heap of slices of T (base -> index -> value)
		need(1)
		t := x.resolveType(env, c, e.Args[0].Lit)
		return x.heap(env.st, x.elemHeapKey(t)), nil
	case "row":
		need(1)
		v, t := x.eval(env, c, e.Args[0])
		tv := x.asTerm(env, c, v, t, "")
		u, ok := types.Unalias(t).Underlying().(*types.Slice)
		if !ok {
			x.specFail(c, "row of non-slice")
		}
		return Select(x.heap(env.st, x.elemHeapKey(u.Elem())), SlBase(tv)), nil
	case "subsl":
		need(4)
		return app(SSlice, "subsl", argT(0), argT(1), argT(2), argT(3)), nil
	case "nilslice":
		return NilSl, nil
	case "strsrc":
		// strsrc(b): the string a byte slice was converted from ([]byte(s)); unconstrained otherwise
		need(1)
		return app(SStr, "strsrc", SlBase(argT(0))), types.Typ[types.String]
	case "sidx":
		need(2)
		return SlIdx(argT(0), argT(1)), intT
	case "base":
		need(1)
		return SlBase(argT(0)), intT
	case "off":
		need(1)
		return SlOff(argT(0)), intT
	case "in":
		need(2)
		kv := argT(0)
		mv, mt := x.eval(env, c, e.Args[1])
		m := x.asTerm(env, c, mv, mt, "")
		if mt != nil {
			if u, ok := types.Unalias(mt).Underlying().(*types.Map); ok {
				hk, _, _ := x.mapHeapKeys(u)
				return And(Neq(m, Zero), Select(Select(x.heap(env.st, hk), m), kv)), boolT
			}
		}
		return Select(m, kv), boolT
	case "closed":
		need(1)
		return Select(x.heap(env.st, kChClosed), argT(0)), boolT
	case "typeof":
		need(1)
		return ITy(argT(0)), intT
	case "dyn":
		need(1)
		return IVal(argT(0)), intT
	case "typeid":
		need(1)
		t := x.resolveType(env, c, e.Args[0].Lit)
		return IntLit(int64(x.D.TypeID(t))), intT
	case "typeis":
		need(2)
		t := x.resolveType(env, c, e.Args[1].Lit)
		return Eq(ITy(argT(0)), IntLit(int64(x.D.TypeID(t)))), boolT
	case "iface":
		// iface("T", v): interface value holding v with dynamic type T
		need(2)
		t := x.resolveType(env, c, e.Args[0].Lit)
		v, _ := x.eval(env, c, e.Args[1])
		return x.makeIface(env.st, v, t), nil
	case "nilI":
		return NilI, nil
	case "held", "heldR":
		need(1)
		k, ref := x.lockArg(env, c, e.Args[0])
		var alts []Term
		for _, h := range env.st.held {
			if h.Key == k && (e.Op == "heldR" || h.Mode == 2) {
				alts = append(alts, Eq(h.Ref, ref))
			}
		}
		return Or(alts...), boolT
	case "nolocks":
		return BoolLit(len(env.st.held) == 0), boolT
	case "fresh":
		need(1)
		t := argT(0)
		if env.st.fresh[t.S] {
			return True, boolT
		}
		var alts []Term
		for _, r := range sortedKeys(env.st.fresh) {
			alts = append(alts, Eq(t, mk(SInt, r)))
		}
		return Or(alts...), boolT
	case "addr":
		// addr(v): address of an address-taken local variable
		need(1)
		if e.Args[0].Kind != "ident" {
			x.specFail(c, "addr needs a variable name")
		}
		a := x.findLocal(e.Args[0].Op)
		if a == nil {
			a = x.baselineLocal(e.Args[0].Op)
		}
		fr := x.rootFrame(env.st)
		if a == nil || !a.Heap || fr == nil {
			x.specFail(c, "addr: %s is not an address-taken local", e.Args[0].Op)
		}
		if pv, ok := fr.vals[a].(Term); ok {
			return pv, a.Type()
		}
		return Zero, a.Type()
	case "fieldaddr":
		// fieldaddr(a, p, "f"): the value bound to the name a (a hook argument) is exactly the address &p.f
		need(3)
		if e.Args[0].Kind != "ident" {
			x.specFail(c, "fieldaddr needs a bound name first")
		}
		v, _ := x.lookupIdent(env, c, e.Args[0].Op)
		ad, ok := v.(*Addr)
		pv, pt := x.eval(env, c, e.Args[1])
		pterm, isT := pv.(Term)
		st := derefType(pt)
		if !isT || st == nil || !isStruct(st) {
			x.specFail(c, "fieldaddr: second argument must be a pointer to a struct")
		}
		si := x.D.StructInfo(st)
		want := ""
		for i, f := range si.fields {
			if f.name == e.Args[2].Lit {
				want, _ = x.fieldHeapKey(st, i)
			}
		}
		if want == "" {
			x.specFail(c, "fieldaddr: no field %s", e.Args[2].Lit)
		}
		if !ok || ad.Kind != aField || ad.Key != want || len(ad.Path) != 0 {
			return False, boolT
		}
		return Eq(ad.Ref, pterm), boolT
	case "heldobj":
		need(1)
		t := argT(0)
		var alts []Term
		for _, h := range env.st.held {
			if h.Key == "obj" {
				alts = append(alts, Eq(h.Ref, t))
			}
		}
		return Or(alts...), boolT
	case "allocated":
		need(1)
		t := argT(0)
		return And(Gt(t, Zero), Lt(t, env.st.top)), boolT
	case "wasalloc":
		// wasalloc(x): the reference x (current value) was already allocated in the old state
		need(1)
		t := argT(0)
		return And(Gt(t, Zero), Lt(t, env.old.top)), boolT
	case "done":
		need(1)
		return Select(x.heap(env.st, kCtxDone), argT(0)), boolT
	case "ctxErr":
		need(1)
		x.D.Fun("ctx_err", []string{SIface}, SIface)
		x.D.Raw("(assert (forall ((c Iface)) (! (> (ity (ctx_err c)) 0) :pattern ((ctx_err c)))))")
		return app(SIface, "ctx_err", argT(0)), types.Universe.Lookup("error").Type()
	case "doneChan":
		need(1)
		x.D.Fun("ctx_done", []string{SIface}, SInt)
		return app(SInt, "ctx_done", argT(0)), nil
	case "store":
		need(3)
		return Store(argT(0), argT(1), argT(2)), nil
	case "constarr":
		// constarr("KeySort", v)
		need(2)
		v := argT(1)
		as := ArrSort(e.Args[0].Lit, v.Sort)
		return mk(as, fmt.Sprintf("((as const %s) %s)", as, v.S)), nil
	case "visited":
		need(1)
		for _, k := range sortedKeys(env.st.iters) {
			return Select(env.st.ghost[k], argT(0)), boolT
		}
		x.specFail(c, "visited() outside a map range")
	case "nvisited":
		for _, k := range sortedKeys(env.st.iters) {
			return env.st.ghost[k+"_n"], intT
		}
		x.specFail(c, "nvisited() outside a map range")
	case "strlen":
		need(1)
		return app(SInt, "strlen", argT(0)), intT
	case "zero":
		need(1)
		t := x.resolveType(env, c, e.Args[0].Lit)
		return x.D.ZeroOf(t), t
	case "funcval":
		// funcval("Name"): handle of a static function
		need(1)
		f := x.P.Lookup(e.Args[0].Lit)
		if f == nil {
			x.specFail(c, "unknown function %s", e.Args[0].Lit)
		}
		return x.D.FuncHandle(f.String()), nil
	case "call":
		if len(e.Args) < 1 || (e.Args[0].Kind != "str" && e.Args[0].Kind != "ident") {
			x.specFail(c, "call needs a function name")
		}
		name := e.Args[0].Lit
		if e.Args[0].Kind == "ident" {
			name = e.Args[0].Op
		}
		f := x.P.Lookup(name)
		if f == nil {
			f = x.P.Lookup("var " + name)
		}
		if f == nil {
			x.specFail(c, "unknown function %s", name)
		}
		var args []SymVal
		for _, a := range e.Args[1:] {
			v, t := x.eval(env, c, a)
			args = append(args, x.asTerm(env, c, v, t, ""))
		}
		return x.specInline(env, c, f, args)
	}
	if sym, ok := env.funs[e.Op]; ok {
		var as []Term
		for i := range e.Args {
			as = append(as, argT(i))
		}
		return app(env.funSorts[e.Op], sym, as...), nil
	}
	// user-declared spec functions
	for _, sf := range x.CS.SpecFuns {
		if sf.Name == e.Op {
			if len(e.Args) != len(sf.Params) {
				x.specFail(c, "%s expects %d arguments", sf.Name, len(sf.Params))
			}
			x.W.declareSpecFun(x, sf)
			var as []Term
			for i := range e.Args {
				v, t := x.eval(env, c, e.Args[i])
				as = append(as, x.asTerm(env, c, v, t, sf.Params[i]))
			}
			if len(as) == 0 {
				return mk(sf.Ret, "sf_"+sf.Name), nil
			}
			return app(sf.Ret, "sf_"+sf.Name, as...), nil
		}
	}
	x.specFail(c, "unknown function %s", e.Op)
	return nil, nil
}

// specInline symbolically executes a real, loop-free function inside a specification
// and returns its result as a term (case split over its paths).
func (x *Exec) specInline(env *Env, c *Clause, f *ssa.Function, args []SymVal) (SymVal, types.Type) {
	if hasLoops(f) {
		x.specFail(c, "call(): %s has loops", f.Name())
	}
	rs := f.Signature.Results()
	if rs.Len() != 1 {
		x.specFail(c, "call(): %s must have exactly one result", f.Name())
	}
	x.Inlined[x.P.ShortName(f)+" (in spec)"] = true
	live := env.liveState()
	base := env.st.assume
	sub := env.st.clone()
	sub.fr = &Frame{fn: f, vals: map[ssa.Value]SymVal{}, locals: map[*ssa.Alloc]Term{}, blk: f.Blocks[0]}
	for k, p := range f.Params {
		if k < len(args) {
			sub.fr.vals[p] = args[k]
		}
	}
	sub.fr.params = args
	rsort := x.D.SortOf(rs.At(0).Type())
	r := x.D.Fresh("specres_"+f.Name(), rsort)
	type pathRes struct {
		facts, restr []string
		res          Term
	}
	var prs []pathRes
	sub.fr.onRet = func(st *State, res []SymVal) {
		facts, restr := st.assume.since(base)
		prs = append(prs, pathRes{facts, restr, x.term(st, res[0], rs.At(0).Type())})
	}
	saveNP := x.wantNoPanic
	x.wantNoPanic = false
	x.specDepth++
	x.run(sub)
	x.specDepth--
	x.wantNoPanic = saveNP
	for _, p := range prs {
		for _, f := range p.facts {
			live.assume = live.assume.push(f, false)
		}
		var guard []Term
		for _, g := range p.restr {
			guard = append(guard, mk(SBool, g))
		}
		live.Assume(Implies(And(guard...), Eq(r, p.res)))
	}
	return r, rs.At(0).Type()
}
