package eng

import (
	"bytes"
	"crypto/sha256"
	"encoding/json"
	"fmt"
	"go/ast"
	"go/parser"
	"go/printer"
	"go/token"
	"go/types"
	"os"
	"os/exec"
	"path/filepath"
	"runtime/debug"
	"sort"
	"strings"

	"golang.org/x/tools/go/ssa"
)

// genMethod / genService mirror gentool's binding table (computed from the descriptors
// registered by the repository's packages - the oracle is the descriptor, not the templates).
type genMethod struct {
	Name             string `json:"name"`
	GoName           string `json:"go_name"`
	FullName         string `json:"full_name"`
	Input            string `json:"input"`
	Output           string `json:"output"`
	CallType         string `json:"call_type"`
	Async            bool   `json:"async"`
	PerNode          bool   `json:"per_node"`
	CustomReturnType string `json:"custom_return_type"`
	ClientStream     bool   `json:"client_stream"`
	ServerStream     bool   `json:"server_stream"`
}

type genService struct {
	File      string      `json:"file"`
	GoPackage string      `json:"go_package"`
	Service   string      `json:"service"`
	Methods   []genMethod `json:"methods"`
}

type genCtx struct {
	Tmp     string
	Table   []genService
	Overlay map[string][]byte
	Results []*FuncResult
	Spec    string // path of the generated contract file
	Pkgs    []string
	gentool string
	plugin  string
}

func runCmd(dir string, name string, args ...string) (string, error) {
	cmd := exec.Command(name, args...)
	cmd.Dir = dir
	cmd.Env = append(os.Environ(), offlineEnv...)
	var out bytes.Buffer
	cmd.Stdout = &out
	cmd.Stderr = &out
	err := cmd.Run()
	return out.String(), err
}

// stripped returns the source with comments removed, printed canonically.
func stripped(src []byte) (string, error) {
	fset := token.NewFileSet()
	f, err := parser.ParseFile(fset, "x.go", src, 0)
	if err != nil {
		return "", err
	}
	f.Comments = nil
	ast.Inspect(f, func(n ast.Node) bool {
		switch d := n.(type) {
		case *ast.GenDecl:
			d.Doc = nil
		case *ast.FuncDecl:
			d.Doc = nil
		case *ast.Field:
			d.Doc, d.Comment = nil, nil
		case *ast.ValueSpec:
			d.Doc, d.Comment = nil, nil
		case *ast.TypeSpec:
			d.Doc, d.Comment = nil, nil
		case *ast.ImportSpec:
			d.Doc, d.Comment = nil, nil
		}
		return true
	})
	var b bytes.Buffer
	if err := (&printer.Config{Mode: printer.RawFormat}).Fprint(&b, token.NewFileSet(), f); err != nil {
		return "", err
	}
	// canonical whitespace
	return strings.Join(strings.Fields(b.String()), " "), nil
}

// repoDirOf maps a proto target to the repository directory its generated file lives in
// and the plugin parameter used to regenerate it.
func genTarget(s genService) (dir, param string) {
	switch {
	case s.File == "zorums.proto":
		return "cmd/protoc-gen-gorums/dev", "paths=source_relative,dev=true"
	case strings.HasPrefix(s.File, "benchmark/"):
		return "", "paths=source_relative"
	default:
		return "tests", "paths=source_relative"
	}
}

func structOblig(res *FuncResult, name string, ok bool, detail string, props ...string) {
	res.Obligs = append(res.Obligs, &Oblig{Name: name, Kind: "gen", Func: res.Name, Structural: true, StructOK: ok, Detail: detail, Props: props})
}

// PrepareGen builds the plugin and gentool from the working tree, regenerates every
// *_gorums.pb.go of the repository's descriptors (and the bundled static template),
// compares them with the committed files and prepares overlay + generated contracts.
func PrepareGen(id string) (*genCtx, error) {
	tmp, err := os.MkdirTemp("", "gvcgen")
	if err != nil {
		return nil, err
	}
	g := &genCtx{Tmp: tmp, Overlay: map[string][]byte{}}
	g.gentool = filepath.Join(tmp, "gentool")
	g.plugin = filepath.Join(tmp, "protoc-gen-gorums")
	// gentool is a small module inside /verif that links /repo's packages
	gsrc := filepath.Join(VerifDir, "gentool")
	gwork := filepath.Join(tmp, "gentool-src")
	os.MkdirAll(gwork, 0o755)
	for _, f := range []string{"main.go", "go.mod"} {
		b, err := os.ReadFile(filepath.Join(gsrc, f))
		if err != nil {
			return g, err
		}
		if f == "go.mod" {
			b = bytes.ReplaceAll(b, []byte("=> /repo"), []byte("=> "+RepoDir))
		}
		os.WriteFile(filepath.Join(gwork, f), b, 0o644)
	}
	if b, err := os.ReadFile(filepath.Join(RepoDir, "go.sum")); err == nil {
		os.WriteFile(filepath.Join(gwork, "go.sum"), b, 0o644)
	}
	cur := &FuncResult{Name: "generated-code-currency", HasContract: true}
	g.Results = append(g.Results, cur)
	if out, err := runCmd(gwork, "go", "build", "-o", g.gentool, "."); err != nil {
		structOblig(cur, "gen/build[gentool links the repository's generated packages]", false, truncate(out, 2000), id)
		return g, nil
	}
	if out, err := runCmd(RepoDir, "go", "build", "-o", g.plugin, "./cmd/protoc-gen-gorums"); err != nil {
		structOblig(cur, "gen/build[protoc-gen-gorums]", false, truncate(out, 2000), id)
		return g, nil
	}
	out, err := runCmd(tmp, g.gentool, "table")
	if err != nil || json.Unmarshal([]byte(out), &g.Table) != nil {
		structOblig(cur, "gen/table[binding table from descriptors]", false, truncate(out, 2000), id)
		return g, nil
	}
	pkgSet := map[string]bool{}
	for _, s := range g.Table {
		dir, param := genTarget(s)
		outdir := filepath.Join(tmp, "regen", mangle(s.File))
		o, err := runCmd(tmp, g.gentool, "regen", g.plugin, param, s.File, outdir)
		if err != nil {
			structOblig(cur, fmt.Sprintf("gen/regenerate[%s]", s.File), false, "the plugin failed on the repository's own descriptor: "+truncate(o, 1500), id)
			continue
		}
		var names []string
		json.Unmarshal([]byte(o), &names)
		sort.Strings(names)
		for _, n := range names {
			regen, _ := os.ReadFile(filepath.Join(outdir, n))
			committedPath := filepath.Join(RepoDir, dir, n)
			if s.File == "zorums.proto" {
				committedPath = filepath.Join(RepoDir, dir, filepath.Base(n))
			}
			committed, err := os.ReadFile(committedPath)
			name := fmt.Sprintf("gen/current[%s]", shortPath(strings.TrimPrefix(committedPath, RepoDir+"/")))
			if err != nil {
				structOblig(cur, name, false, "committed file missing: "+err.Error(), id)
				continue
			}
			a, e1 := stripped(regen)
			b, e2 := stripped(committed)
			ok := e1 == nil && e2 == nil && a == b
			detail := "regenerated from the current templates == committed file (comments aside)"
			if !ok {
				detail = fmt.Sprintf("regenerated output differs from the committed file (comments aside): %v %v", e1, e2)
				if e1 == nil && e2 == nil {
					i := 0
					for i < len(a) && i < len(b) && a[i] == b[i] {
						i++
					}
					lo := i - 60
					if lo < 0 {
						lo = 0
					}
					detail += fmt.Sprintf("; first difference near: regenerated %q vs committed %q", clip(a, lo, i+80), clip(b, lo, i+80))
				}
			}
			structOblig(cur, name, ok, detail, id)
			g.Overlay[committedPath] = regen
		}
		pkgSet[s.GoPackage] = true
	}
	// bundled static template: re-bundle cmd/protoc-gen-gorums/dev into a temporary copy
	static := filepath.Join(RepoDir, "cmd/protoc-gen-gorums/gengorums/template_static.go")
	if b, err := os.ReadFile(static); err == nil {
		cp := filepath.Join(tmp, "template_static.go")
		os.WriteFile(cp, b, 0o644)
		o, err := runCmd(RepoDir, g.plugin, "--bundle="+cp)
		nb, _ := os.ReadFile(cp)
		a, e1 := stripped(nb)
		c, e2 := stripped(b)
		ok := err == nil && e1 == nil && e2 == nil && a == c
		detail := "fresh --bundle of cmd/protoc-gen-gorums/dev == committed template_static.go (comments aside)"
		if !ok {
			detail = "re-bundling the static sources gives a different template_static.go: " + truncate(o, 1500)
		}
		structOblig(cur, "gen/current[cmd/protoc-gen-gorums/gengorums/template_static.go]", ok, detail, id)
		os.Remove(cp + ".bak")
	}
	// Binding is verified on stubs regenerated from RENAMED descriptors: every method is spelled in
	// lower_snake_case in memory, which leaves every generated Go identifier as it is (the packages
	// still compile against the committed message code) but makes the wire name of a method differ
	// from all of them. The schema contracts are rendered from the renamed descriptors.
	var renamed []genService
	out, err = runCmd(tmp, g.gentool, "table", "renamed")
	if err != nil || json.Unmarshal([]byte(out), &renamed) != nil || len(renamed) != len(g.Table) {
		structOblig(cur, "gen/renamed-table[binding table from descriptors with lower_snake_case method names]", false, truncate(out, 2000), id)
		return g, nil
	}
	nRenamed := 0
	for si, s := range renamed {
		for mi, m := range s.Methods {
			if m.Name != g.Table[si].Methods[mi].Name {
				nRenamed++
			}
			if m.goName() != g.Table[si].Methods[mi].Name {
				structOblig(cur, fmt.Sprintf("gen/renamed-table[%s.%s keeps its Go identifier]", s.Service, m.Name), false, "renaming changed the Go identifier: "+m.goName(), id)
			}
		}
		dir, param := genTarget(s)
		outdir := filepath.Join(tmp, "regen-renamed", mangle(s.File))
		o, err := runCmd(tmp, g.gentool, "regen", g.plugin, param, s.File, outdir, "renamed")
		if err != nil {
			structOblig(cur, fmt.Sprintf("gen/regenerate-renamed[%s]", s.File), false, "the plugin failed on the descriptor with lower_snake_case method names: "+truncate(o, 1500), id)
			continue
		}
		var names []string
		json.Unmarshal([]byte(o), &names)
		for _, n := range names {
			regen, _ := os.ReadFile(filepath.Join(outdir, n))
			committedPath := filepath.Join(RepoDir, dir, n)
			if s.File == "zorums.proto" {
				committedPath = filepath.Join(RepoDir, dir, filepath.Base(n))
			}
			g.Overlay[committedPath] = regen
		}
	}
	structOblig(cur, "gen/renamed-table[methods renamed]", nRenamed > 0, fmt.Sprintf("%d methods carry a wire name that differs from every Go identifier", nRenamed), id)
	g.Table = renamed
	for p := range pkgSet {
		g.Pkgs = append(g.Pkgs, p)
	}
	sort.Strings(g.Pkgs)
	g.Spec = filepath.Join(tmp, "generated.spec")
	os.WriteFile(g.Spec, []byte(g.contracts(id)), 0o644)
	return g, nil
}

func clip(s string, lo, hi int) string {
	if lo < 0 {
		lo = 0
	}
	if hi > len(s) {
		hi = len(s)
	}
	if lo > hi {
		lo = hi
	}
	return s[lo:hi]
}

func pkgShort(goPkg string) string {
	s := strings.TrimPrefix(goPkg, modPath+"/cmd/protoc-gen-gorums/")
	s = strings.TrimPrefix(s, modPath+"/")
	return s
}

var genEntries = map[string]string{
	"rpc": "n.RawNode.RPCCall", "unicast": "n.RawNode.Unicast", "multicast": "c.RawConfiguration.Multicast",
	"quorumcall": "c.RawConfiguration.QuorumCall", "async": "c.RawConfiguration.AsyncCall", "correctable": "c.RawConfiguration.CorrectableCall",
}

// goName is the Go identifier of the method in generated code.
func (m genMethod) goName() string {
	if m.GoName != "" {
		return m.GoName
	}
	return m.Name
}

func (m genMethod) kind() string {
	if m.CallType == "quorumcall" && m.Async {
		return "async"
	}
	return m.CallType
}

// contracts renders the schema contracts of the generated client stubs from the binding table.
func (g *genCtx) contracts(id string) string {
	var b strings.Builder
	b.WriteString("// generated by gvc from the descriptor binding table: schema contracts of the client stubs\n")
	for _, s := range g.Table {
		ps := pkgShort(s.GoPackage)
		for _, m := range s.Methods {
			k := m.kind()
			recv := "Configuration"
			if k == "rpc" || k == "unicast" {
				recv = "Node"
			}
			fmt.Fprintf(&b, "//@ func (*%s.%s).%s\n//@   props %s\n//@   ghost ncalls Int = 0\n", ps, recv, m.goName(), id)
			for kind, entry := range genEntries {
				fmt.Fprintf(&b, "//@   on call %q\n", entry)
				if kind != k {
					fmt.Fprintf(&b, "//@     assert[%s.entry] false\n", id)
					continue
				}
				fmt.Fprintf(&b, "//@     assert[%s.name] arg1.Method == %q\n", id, m.FullName)
				fmt.Fprintf(&b, "//@     assert[%s.request] ncalls == 0 && arg0 == ctx && arg1.Message != nil && dyn(arg1.Message) == in\n", id)
				switch k {
				case "quorumcall", "async", "correctable", "multicast":
					if m.PerNode {
						fmt.Fprintf(&b, "//@     assert[%s.pernode] arg1.PerNodeArgFn != nil\n", id)
					} else {
						fmt.Fprintf(&b, "//@     assert[%s.pernode] arg1.PerNodeArgFn == nil\n", id)
					}
				}
				switch k {
				case "quorumcall", "async", "correctable":
					fmt.Fprintf(&b, "//@     assert[%s.qf] arg1.QuorumFunction != nil\n", id)
				}
				if k == "correctable" {
					fmt.Fprintf(&b, "//@     assert[%s.stream] arg1.ServerStream == %v\n", id, m.ServerStream)
				}
				if k == "multicast" || k == "unicast" {
					fmt.Fprintf(&b, "//@     assert[%s.opts] arg2 == opts\n", id)
				}
				b.WriteString("//@     after set ncalls = ncalls + 1\n")
			}
			fmt.Fprintf(&b, "//@   ensures[%s.entry] ncalls == 1\n//@   opt optional-hooks=1\n\n", id)
		}
	}
	return b.String()
}

// ScanServers checks the generated Register<S>Server functions against the binding table.
func (g *genCtx) ScanServers(s *Session, id string) *FuncResult {
	res := &FuncResult{Name: "generated-server-registration", HasContract: true}
	for _, svc := range g.Table {
		ps := pkgShort(svc.GoPackage)
		fname := ps + ".Register" + svc.Service + "Server"
		fn := s.P.Lookup(fname)
		if fn == nil {
			structOblig(res, fmt.Sprintf("gen:server[%s]/exists", fname), false, "registration function not found", id)
			continue
		}
		type reg struct {
			key string
			fn  *ssa.Function
		}
		var regs []reg
		for _, b := range fn.Blocks {
			for _, in := range b.Instrs {
				c, ok := in.(*ssa.Call)
				if !ok {
					continue
				}
				callee := c.Call.StaticCallee()
				if callee == nil || callee.Name() != "RegisterHandler" {
					continue
				}
				key := ""
				if k, ok := c.Call.Args[1].(*ssa.Const); ok && k.Value != nil {
					key = strings.Trim(k.Value.ExactString(), `"`)
				}
				var hf *ssa.Function
				switch v := c.Call.Args[2].(type) {
				case *ssa.MakeClosure:
					hf, _ = v.Fn.(*ssa.Function)
				case *ssa.Function:
					hf = v
				case *ssa.ChangeType:
					if mc, ok := v.X.(*ssa.MakeClosure); ok {
						hf, _ = mc.Fn.(*ssa.Function)
					}
				}
				regs = append(regs, reg{key, hf})
			}
		}
		for _, m := range svc.Methods {
			n := 0
			var hf *ssa.Function
			for _, r := range regs {
				if r.key == m.FullName {
					n++
					hf = r.fn
				}
			}
			base := fmt.Sprintf("gen:server[%s]", m.FullName)
			structOblig(res, base+"/registered-exactly-once-under-its-full-name", n == 1, fmt.Sprintf("%d registrations under %q in %s", n, m.FullName, fname), id)
			if hf == nil {
				continue
			}
			// facts about the handler closure (and closures nested in it)
			implCalls, releases, wraps, sends, clones, wrapsWithInMD := []string{}, 0, 0, 0, 0, 0
			var walk func(f *ssa.Function)
			walk = func(f *ssa.Function) {
				for _, b := range f.Blocks {
					for _, in := range b.Instrs {
						switch i := in.(type) {
						case *ssa.Defer:
							if c := i.Call.StaticCallee(); c != nil && c.Name() == "Release" {
								releases++
							}
						case *ssa.Call:
							if i.Call.IsInvoke() {
								if fv, ok := i.Call.Value.(*ssa.UnOp); ok {
									if fr, ok := fv.X.(*ssa.FreeVar); ok && fr.Name() == "impl" {
										implCalls = append(implCalls, i.Call.Method.Name())
									}
								}
								continue
							}
							if c := i.Call.StaticCallee(); c != nil {
								switch c.Name() {
								case "WrapMessage":
									wraps++
									if fieldOfLoaded(i.Call.Args[0]) == "Message.Metadata" {
										wrapsWithInMD++
									}
								case "SendMessage":
									sends++
								case "Clone":
									clones++
								case "Release":
									releases++
								}
							}
						}
					}
				}
				for _, a := range f.AnonFuncs {
					walk(a)
				}
			}
			walk(hf)
			structOblig(res, base+"/calls-impl-method-once", len(implCalls) == 1 && implCalls[0] == m.goName(), fmt.Sprintf("handler calls impl.%v, want exactly impl.%s", implCalls, m.goName()), id, "C04")
			structOblig(res, base+"/releases-on-return", releases >= 1, fmt.Sprintf("%d deferred/explicit ctx.Release() in the handler closure", releases), id, "C04")
			switch {
			case m.CallType == "multicast" || m.CallType == "unicast":
				structOblig(res, base+"/one-way-sends-no-reply", sends == 0 && wraps == 0, fmt.Sprintf("one-way handler: %d SendMessage, %d WrapMessage", sends, wraps), id, "C06")
			case m.ServerStream:
				structOblig(res, base+"/stream-replies-clone-metadata", sends >= 2 && clones >= 1 && wraps >= 2, fmt.Sprintf("stream handler: %d SendMessage, %d WrapMessage, %d proto.Clone of the metadata", sends, wraps, clones), id, "C15")
			default:
				structOblig(res, base+"/replies-once-with-request-metadata", sends == 1 && wraps == 1 && wrapsWithInMD == 1, fmt.Sprintf("two-way handler: %d SendMessage, %d WrapMessage (%d with in.Metadata)", sends, wraps, wrapsWithInMD), id, "C01", "C05")
			}
		}
		// no registration under a name that is not a method of the service
		for _, r := range regs {
			known := false
			for _, m := range svc.Methods {
				if m.FullName == r.key {
					known = true
				}
			}
			if !known {
				structOblig(res, fmt.Sprintf("gen:server[%s]/registered-name-is-a-method", r.key), false, "registered under a name that is not a method of "+svc.Service, id)
			}
		}
	}
	return res
}

func (g *genCtx) Close() {
	if g != nil && g.Tmp != "" {
		os.RemoveAll(g.Tmp)
	}
}

// VerifyAccessors verifies the regenerated typed accessors (Get of the typed futures and
// correctables) to be panic-free at every moment: the only thing assumed about the raw
// accessor's result is that a non-nil reply has the accessor's own message type
// (what the typed quorum function returns and set publishes).
func (g *genCtx) VerifyAccessors(s *Session, id string) []*FuncResult {
	var out []*FuncResult
	for _, fn := range s.P.AllFns {
		if fn.Name() != "Get" || fn.Signature.Recv() == nil || len(fn.Blocks) == 0 {
			continue
		}
		res := fn.Signature.Results()
		if res.Len() < 2 {
			continue
		}
		// find the embedded raw accessor call
		anchor := ""
		for _, b := range fn.Blocks {
			for _, in := range b.Instrs {
				if c, ok := in.(*ssa.Call); ok {
					if callee := c.Call.StaticCallee(); callee != nil && callee.Name() == "Get" && callee.Pkg != nil && callee.Pkg.Pkg.Path() == modPath {
						anchor, _ = s.P.CallText(c.Pos())
					}
				}
			}
		}
		if anchor == "" {
			continue
		}
		name := s.P.ShortName(fn)
		tstr := shortTypeKey(res.At(0).Type())
		fc := &FuncContract{Name: name, Mode: "sequential", Opts: map[string]string{}, Props: []string{id}, NoPanicProps: []string{id, "C11", "C01"}}
		recvName := fn.Params[0].Name()
		// the typed object wraps a non-nil raw object (generated constructors never build it otherwise)
		raw := strings.TrimSuffix(anchor, ".Get")
		rq, err1 := parseClause(recvName+" != nil && "+raw+" != nil", "generated", 0)
		assume := fmt.Sprintf("res0 != nil ==> typeis(res0, %q)", tstr)
		if res.Len() == 2 {
			// typed future: a successfully completed call holds the typed adapter's (non-nil interface) value
			assume = fmt.Sprintf("(res0 != nil ==> typeis(res0, %q)) && (res1 == nil ==> res0 != nil)", tstr)
		}
		as, err2 := parseClause(assume, "generated", 0)
		if err1 != nil || err2 != nil {
			continue
		}
		fc.Requires = []*Clause{rq}
		fc.Hooks = []*Hook{{Kind: "call", Anchor: anchor, Actions: []Action{{Kind: "assume", After: true, C: as}}}}
		x := NewExec(s.W, fn, fc, name)
		r := x.VerifyFunction()
		for _, o := range r.Obligs {
			if len(o.Props) == 0 {
				o.Props = []string{id}
			}
		}
		out = append(out, r)
	}
	return out
}

// GeneratorRuns are the supplementary, explicitly bounded checks of C16 on the freshly built
// plugin: byte-identical output over repeated runs for every repository descriptor, and a
// diagnostic for descriptors mutated in memory with each documented illegal combination.
func (g *genCtx) GeneratorRuns(id string, runs int) *FuncResult {
	res := &FuncResult{Name: "generator-runs (bounded)", HasContract: true}
	if g == nil || g.gentool == "" {
		return res
	}
	for _, s := range g.Table {
		_, param := genTarget(s)
		var first string
		same := true
		for i := 0; i < runs; i++ {
			out := filepath.Join(g.Tmp, fmt.Sprintf("det%d", i), mangle(s.File))
			o, err := runCmd(g.Tmp, g.gentool, "regen", g.plugin, param, s.File, out)
			if err != nil {
				same = false
				first = o
				break
			}
			// names, order and content of everything emitted
			var names []string
			json.Unmarshal([]byte(o), &names)
			h := sha256.New()
			for _, n := range names {
				b, _ := os.ReadFile(filepath.Join(out, n))
				fmt.Fprintf(h, "%s %d\n", n, len(b))
				h.Write(b)
			}
			o = fmt.Sprintf("%s sha256=%x", o, h.Sum(nil))
			if i == 0 {
				first = o
			} else if o != first {
				same = false
			}
			os.RemoveAll(filepath.Join(g.Tmp, fmt.Sprintf("det%d", i)))
		}
		structOblig(res, fmt.Sprintf("gen/deterministic[%s, %d runs, %s]", s.File, runs, param), same,
			"order, names and bytes of the emitted files over repeated runs: "+truncate(first, 300), id)
	}
	// illegal combinations on zorums.proto's plain quorum call / multicast methods
	type combo struct {
		method string
		opts   []string
		why    string
	}
	combos := []combo{
		{"QuorumCall", []string{"multicast"}, "two call types (quorumcall + multicast)"},
		{"QuorumCall", []string{"correctable"}, "two call types (quorumcall + correctable)"},
		{"QuorumCall", []string{"unicast"}, "two call types (quorumcall + unicast)"},
		{"Multicast", []string{"unicast"}, "two call types (multicast + unicast)"},
		{"Correctable", []string{"multicast"}, "two call types (correctable + multicast)"},
		{"Correctable", []string{"unicast"}, "two call types (correctable + unicast)"},
		{"Multicast", []string{"async"}, "async without quorumcall"},
		{"Correctable", []string{"async"}, "correctable combined with async"},
		{"QuorumCall", []string{"client_stream"}, "client stream without multicast"},
		{"QuorumCall", []string{"server_stream"}, "server stream without correctable"},
		{"Correctable", []string{"client_stream"}, "correctable on a client stream"},
	}
	for _, c := range combos {
		args := append([]string{"mutate", g.plugin, "paths=source_relative", "zorums.proto", c.method}, c.opts...)
		o, _ := runCmd(g.Tmp, g.gentool, args...)
		var r struct {
			ExitError bool   `json:"exit_error"`
			Stderr    string `json:"stderr"`
			RespErr   string `json:"response_error"`
			Files     int    `json:"files"`
		}
		json.Unmarshal([]byte(o), &r)
		diag := r.ExitError || r.RespErr != ""
		structOblig(res, fmt.Sprintf("gen/rejects[%s + %s: %s]", c.method, strings.Join(c.opts, "+"), c.why), diag,
			fmt.Sprintf("exit_error=%v response_error=%q stderr=%q files=%d", r.ExitError, truncate(r.RespErr, 200), truncate(r.Stderr, 200), r.Files), id)
	}
	return res
}

// ScanMapRanges: emission must not depend on Go's map iteration order. Every range over a map in
// the generator package must be a pure key collection (the keys are sorted afterwards), an
// existence test (return on first hit) or carry a listed justification.
func ScanMapRanges(s *Session, id string, justified map[string]string) *FuncResult {
	res := &FuncResult{Name: "map-range-order", HasContract: true}
	for _, fn := range s.P.AllFns {
		if len(fn.Blocks) == 0 || fn.Synthetic != "" {
			continue
		}
		file := s.P.Fset.Position(fn.Pos()).Filename
		if strings.HasSuffix(file, "_test.go") || strings.HasSuffix(file, "template_static.go") {
			continue
		}
		for _, b := range fn.Blocks {
			for _, in := range b.Instrs {
				rg, ok := in.(*ssa.Range)
				if !ok {
					continue
				}
				if _, isMap := rg.X.Type().Underlying().(*types.Map); !isMap {
					continue
				}
				name := fmt.Sprintf("map-range[%s @ %s]/order-insensitive", s.P.ShortName(fn), s.P.SrcLineFrom(rg.Pos()))
				okk, why := mapRangeIsOrderInsensitive(s, fn, rg)
				if !okk {
					if j, has := justified[s.P.ShortName(fn)]; has {
						okk, why = true, "justified: "+j
						s.CS.Assumptions = append(s.CS.Assumptions, "map range in "+s.P.ShortName(fn)+" accepted as order-insensitive: "+j)
					}
				}
				structOblig(res, name, okk, why, id)
			}
		}
	}
	return res
}

// tempAlloc: the address is rooted at an allocation made in the same function (a temporary
// such as the varargs array of append), not at shared state.
func tempAlloc(v ssa.Value) bool {
	for {
		switch a := v.(type) {
		case *ssa.Alloc:
			return true
		case *ssa.FieldAddr:
			v = a.X
		case *ssa.IndexAddr:
			v = a.X
		default:
			return false
		}
	}
}

// mapRangeIsOrderInsensitive recognises the two safe shapes syntactically.
func mapRangeIsOrderInsensitive(s *Session, fn *ssa.Function, rg *ssa.Range) (bool, string) {
	// find the loop body blocks: blocks dominated by the block holding the Next
	var next *ssa.Next
	for _, ref := range *rg.Referrers() {
		if n, ok := ref.(*ssa.Next); ok {
			next = n
		}
	}
	if next == nil {
		return false, "no Next"
	}
	head := next.Block()
	body := map[*ssa.BasicBlock]bool{}
	for _, b := range fn.Blocks {
		if head.Dominates(b) && b != head {
			// part of the loop if it can reach the head again
			body[b] = true
		}
	}
	// natural loop: blocks with a path back to head
	inLoop := map[*ssa.BasicBlock]bool{}
	for b := range body {
		seen := map[*ssa.BasicBlock]bool{}
		var reach func(x *ssa.BasicBlock) bool
		reach = func(x *ssa.BasicBlock) bool {
			if x == head {
				return true
			}
			if seen[x] {
				return false
			}
			seen[x] = true
			for _, sx := range x.Succs {
				if reach(sx) {
					return true
				}
			}
			return false
		}
		if reach(b) {
			inLoop[b] = true
		}
	}
	onlyAppend, onlyReturnConst := true, true
	effects := 0
	for b := range inLoop {
		for _, in := range b.Instrs {
			switch i := in.(type) {
			case *ssa.Call:
				if bi, ok := i.Call.Value.(*ssa.Builtin); ok && bi.Name() == "append" {
					effects++
					continue
				}
				onlyAppend = false
				if c := i.Call.StaticCallee(); c == nil || c.Pkg == nil || !s.P.Verified[c.Pkg.Pkg.Path()] {
					// library or dynamic call: may have effects
					onlyReturnConst = false
				}
			case *ssa.MapUpdate, *ssa.Send, *ssa.Go, *ssa.Defer:
				onlyAppend, onlyReturnConst = false, false
			case *ssa.Store:
				if !tempAlloc(i.Addr) {
					onlyAppend, onlyReturnConst = false, false
				}
			}
		}
	}
	if onlyAppend && effects > 0 {
		return true, "the loop only collects keys/values with append (sorted before use)"
	}
	if onlyReturnConst && effects == 0 {
		return true, "the loop has no effect besides an early return (existence test)"
	}
	var why []string
	for b := range inLoop {
		for _, in := range b.Instrs {
			switch i := in.(type) {
			case *ssa.Call:
				why = append(why, i.String())
			case *ssa.Store:
				if !tempAlloc(i.Addr) {
					why = append(why, i.String())
				}
			}
		}
	}
	sort.Strings(why)
	return false, "the loop body has order-dependent effects: " + truncate(strings.Join(why, "; "), 400)
}

// NestedCallTypesExclusive proves, for every entry of a call-type table that carries nested call
// types, that the check functions of its nested entries are pairwise exclusive: deriveCallType
// ranges over the nested map and returns the first entry whose check function holds, so its
// result is independent of Go's map iteration order iff at most one of them holds for any method.
// The check functions (closures of the package initialiser, or named functions) are the real
// code, inlined symbolically over an arbitrary method.
func NestedCallTypesExclusive(s *Session, id string) []*FuncResult {
	var out []*FuncResult
	type entry struct {
		fn    *ssa.Function
		label string
	}
	groups := map[ssa.Value][]entry{}
	var order []ssa.Value
	nested := map[ssa.Value]bool{}
	fnOf := func(v ssa.Value) *ssa.Function {
		for {
			switch u := v.(type) {
			case *ssa.Function:
				return u
			case *ssa.MakeClosure:
				v = u.Fn
			case *ssa.ChangeType:
				v = u.X
			default:
				return nil
			}
		}
	}
	for _, sp := range s.P.SPkgs {
		if !s.P.Verified[sp.Pkg.Path()] {
			continue
		}
		init := sp.Func("init")
		if init == nil {
			continue
		}
		for _, b := range init.Blocks {
			for _, in := range b.Instrs {
				switch i := in.(type) {
				case *ssa.MapUpdate:
					al, ok := i.Value.(*ssa.Alloc)
					if !ok || al.Referrers() == nil {
						continue
					}
					var fn *ssa.Function
					for _, ref := range *al.Referrers() {
						if fa, ok := ref.(*ssa.FieldAddr); ok && fa.Referrers() != nil {
							st := derefType(fa.X.Type())
							if st == nil {
								continue
							}
							str, ok := st.Underlying().(*types.Struct)
							if !ok || str.Field(fa.Field).Name() != "chkFn" {
								continue
							}
							for _, r2 := range *fa.Referrers() {
								if sto, ok := r2.(*ssa.Store); ok && sto.Addr == ssa.Value(fa) {
									fn = fnOf(sto.Val)
								}
							}
						}
					}
					if _, seen := groups[i.Map]; !seen {
						order = append(order, i.Map)
					}
					label := s.P.SrcLineFrom(i.Pos())
					path := s.P.PathAt(i.Pos())
					for k := len(path) - 1; k >= 0; k-- {
						if kv, ok := path[k].(*ast.KeyValueExpr); ok {
							label = s.P.NodeText(kv.Key)
							break
						}
					}
					groups[i.Map] = append(groups[i.Map], entry{fn, label})
				case *ssa.Store:
					if fa, ok := i.Addr.(*ssa.FieldAddr); ok {
						if st := derefType(fa.X.Type()); st != nil {
							if str, ok := st.Underlying().(*types.Struct); ok && str.Field(fa.Field).Name() == "nestedCallType" {
								v := i.Val
								if ct, ok := v.(*ssa.ChangeType); ok {
									v = ct.X
								}
								nested[v] = true
							}
						}
					}
				}
			}
		}
	}
	res := &FuncResult{Name: "nested-call-types", HasContract: true}
	out = append(out, res)
	ngroups := 0
	for _, m := range order {
		if !nested[m] {
			continue
		}
		ngroups++
		es := groups[m]
		for a := 0; a < len(es); a++ {
			for b := a + 1; b < len(es); b++ {
				name := fmt.Sprintf("nested-call-types/exclusive[%s | %s]", es[a].label, es[b].label)
				if es[a].fn == nil || es[b].fn == nil {
					structOblig(res, name, false, "the check function of a nested call type could not be resolved to a function", id)
					continue
				}
				out = append(out, s.verifyExclusive(name, es[a].fn, es[b].fn, id))
			}
		}
	}
	structOblig(res, "nested-call-types/tables-found", ngroups > 0, fmt.Sprintf("%d call-type entries with nested call types", ngroups), id)
	return out
}

// verifyExclusive: for every non-nil argument, f and g (one pointer parameter, boolean result) do not both hold.
func (s *Session) verifyExclusive(name string, f, g *ssa.Function, id string) (res *FuncResult) {
	x := NewExec(s.W, nil, nil, name)
	res = &FuncResult{Name: name, HasContract: true}
	defer func() {
		if r := recover(); r != nil {
			if se, ok := r.(specErr); ok {
				res.Err = "contract error: " + se.msg
			} else {
				res.Err = fmt.Sprintf("engine error: %v\n%s", r, debug.Stack())
			}
		}
		x.finish(res)
		for _, o := range res.Obligs {
			o.Props = []string{id}
		}
	}()
	if len(f.Params) != 1 || len(g.Params) != 1 || !types.Identical(f.Params[0].Type(), g.Params[0].Type()) {
		panic(specErr{"check functions must take one method argument"})
	}
	st := x.blankState()
	st.Assume(Gt(st.top, IntLit(1)))
	x.entry = st.clone()
	x.assumeAxioms(st)
	pt := f.Params[0].Type()
	m := x.D.Const("lv_method", x.D.SortOf(pt))
	st.Assume(x.D.WF(m, pt, st.top, 0))
	st.Assume(Neq(m, Zero))
	env := &Env{x: x, st: st, old: st, binds: map[string]Bound{"m": {V: m, T: pt}}, pkg: f.Pkg.Pkg.Path(), noLocals: true}
	// protogen never hands out a method without its descriptor
	if pre, err := parseClause("m.Desc != nil", "protogen", 0); err == nil {
		st.Assume(x.evalBool(env, pre))
		s.CS.Assumptions = appendUnique(s.CS.Assumptions, "protogen.Method values handed to the call-type check functions are non-nil and carry a non-nil descriptor (Desc)")
	}
	c := &Clause{Text: "!(" + f.Name() + "(m) && " + g.Name() + "(m))", File: s.P.Fset.Position(f.Pos()).Filename, Line: s.P.Fset.Position(f.Pos()).Line}
	rf, _ := x.specInline(env, c, f, []SymVal{m})
	rg, _ := x.specInline(env, c, g, []SymVal{m})
	o := x.oblig("statement", "lemma", []string{id + ".determinism"}, f.Pos())
	o.PosStr = s.P.PosStr(f.Pos())
	o.Src = c.Text
	x.Assert(st, o, Not(And(rf.(Term), rg.(Term))))
	return res
}

func appendUnique(xs []string, s string) []string {
	for _, x := range xs {
		if x == s {
			return xs
		}
	}
	return append(xs, s)
}

// ReservedNamesRejected (bounded, one plugin run per reserved identifier): a message named like a
// Gorums reserved type must be rejected with a diagnostic. The identifiers are read from the
// reservedIdents variable of the working tree's bundled static code.
func ReservedNamesRejected(s *Session, id string) *FuncResult {
	res := &FuncResult{Name: "reserved-names (bounded)", HasContract: true}
	if curGen == nil || curGen.gentool == "" {
		return res
	}
	src, err := os.ReadFile(filepath.Join(RepoDir, "cmd/protoc-gen-gorums/gengorums/template_static.go"))
	if err != nil {
		structOblig(res, "gen/reserved[reservedIdents found]", false, err.Error(), id)
		return res
	}
	fset := token.NewFileSet()
	f, err := parser.ParseFile(fset, "template_static.go", src, 0)
	var names []string
	if err == nil {
		ast.Inspect(f, func(n ast.Node) bool {
			vs, ok := n.(*ast.ValueSpec)
			if !ok || len(vs.Names) != 1 || vs.Names[0].Name != "reservedIdents" || len(vs.Values) != 1 {
				return true
			}
			if cl, ok := vs.Values[0].(*ast.CompositeLit); ok {
				for _, e := range cl.Elts {
					if bl, ok := e.(*ast.BasicLit); ok && bl.Kind == token.STRING {
						names = append(names, strings.Trim(bl.Value, "\"`"))
					}
				}
			}
			return false
		})
	}
	structOblig(res, "gen/reserved[reservedIdents found]", len(names) > 0, fmt.Sprintf("reserved identifiers: %v", names), id)
	for _, n := range names {
		o, _ := runCmd(curGen.Tmp, curGen.gentool, "mutate", curGen.plugin, "paths=source_relative", "zorums.proto", "-", "add_message="+n)
		var r struct {
			ExitError bool   `json:"exit_error"`
			Stderr    string `json:"stderr"`
			RespErr   string `json:"response_error"`
			Files     int    `json:"files"`
		}
		json.Unmarshal([]byte(o), &r)
		diag := r.ExitError || r.RespErr != ""
		structOblig(res, fmt.Sprintf("gen/rejects[message named %s]", n), diag,
			fmt.Sprintf("plugin on zorums.proto with an extra message %s: exit error=%v, response error=%q, stderr=%q, files=%d", n, r.ExitError, r.RespErr, truncate(r.Stderr, 200), r.Files), id)
	}
	// and an unreserved name is accepted
	o, _ := runCmd(curGen.Tmp, curGen.gentool, "mutate", curGen.plugin, "paths=source_relative", "zorums.proto", "-", "add_message=QuorumSpecification")
	var r struct {
		ExitError bool   `json:"exit_error"`
		RespErr   string `json:"response_error"`
		Files     int    `json:"files"`
	}
	json.Unmarshal([]byte(o), &r)
	structOblig(res, "gen/accepts[message named QuorumSpecification]", !r.ExitError && r.RespErr == "" && r.Files > 0, truncate(o, 300), id)
	return res
}
