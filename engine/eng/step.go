package eng

import (
	"fmt"
	"go/token"
	"go/types"
	"os"
	"strings"

	"golang.org/x/tools/go/ssa"
)

func (x *Exec) loopsOf(fn *ssa.Function) map[*ssa.BasicBlock]*loopInfo {
	if fn == x.fn {
		return x.loops
	}
	if m, ok := x.otherLoops[fn]; ok {
		return m
	}
	// loops of inlined functions: analysed without contracts
	saveFn, saveFc, saveLoops := x.fn, x.fc, x.loops
	x.fn, x.fc = fn, nil
	x.analyzeLoops()
	m := x.loops
	x.fn, x.fc, x.loops = saveFn, saveFc, saveLoops
	x.otherLoops[fn] = m
	return m
}

// run executes the path in st until it ends; forks recurse.
func (x *Exec) run(st *State) {
	for !st.dead {
		if x.err != nil {
			return
		}
		fr := st.fr
		if fr.idx >= len(fr.blk.Instrs) {
			panic("fell off block")
		}
		in := fr.blk.Instrs[fr.idx]
		x.step(st, in)
		if st.dead && os.Getenv("GVC_DEBUG") != "" {
			fmt.Fprintf(os.Stderr, "path-end %s at %s: %s\n", strings.Join(st.path, ";"), x.P.PosStr(in.Pos()), in)
		}
	}
}

func (x *Exec) fork(st *State, label string) *State {
	x.paths++
	if x.paths > x.maxPaths {
		x.err = fmt.Errorf("%s: more than %d paths", x.name, x.maxPaths)
	}
	c := st.clone()
	c.path = append(c.path, label)
	return c
}

func (x *Exec) invName(li *loopInfo, i int, c *Clause) string {
	tag := ""
	if len(c.Tags) > 0 {
		tag = "[" + c.TagStr() + "]"
	}
	return fmt.Sprintf("loop%d/invariant%d%s", li.ordinal, i+1, tag)
}

// goTo transfers control from block `from` to block `to` in the current frame.
func (x *Exec) goTo(st *State, from, to *ssa.BasicBlock) {
	fr := st.fr
	// the loop's own test ends it: edge from the head of a loop under contract to a block outside it
	if fr.parent == nil && fr.fn == x.fn && from != nil {
		if lf := x.loopsOf(fr.fn)[from]; lf != nil && lf.lc != nil && len(lf.lc.Exit) > 0 && !lf.body[to] && lf.head == from {
			env := x.envAt(st)
			for _, a := range lf.lc.Exit {
				old, ok := st.ghost[a.Var]
				if !ok {
					panic(specErr{fmt.Sprintf("%s: exit set of undeclared ghost %s", x.name, a.Var)})
				}
				v := x.evalTerm(env, a.C)
				n := x.D.Fresh("gh_"+a.Var, old.Sort)
				st.Assume(Eq(n, v))
				st.ghost[a.Var] = n
			}
		}
	}
	li := x.loopsOf(fr.fn)[to]
	if li != nil && fr.parent == nil && fr.fn == x.fn && x.fc != nil && x.fc.Opts["unroll"] != "" && li.lc == nil {
		// constant-trip loop (e.g. a range over a composite literal): unrolled with an unwinding
		// assertion instead of being cut at an invariant - complete when the assertion passes
		var bound int
		fmt.Sscan(x.fc.Opts["unroll"], &bound)
		key := fmt.Sprintf("$unroll%d", li.ordinal)
		n := 0
		if c, ok := st.ghost[key]; ok {
			fmt.Sscan(c.S, &n)
		}
		if li.body[from] {
			n++
		} else {
			n = 0
		}
		if n > bound {
			o := x.oblig(fmt.Sprintf("loop%d/unwinding[%d iterations suffice]", li.ordinal, bound), "unwind", nil, to.Instrs[0].Pos())
			x.Assert(st, o, False)
			st.dead = true
			return
		}
		st.ghost[key] = mk(SInt, fmt.Sprint(n))
		li = nil
	}
	if li != nil {
		top := fr.parent == nil && fr.fn == x.fn
		if top {
			x.curLoop = li
			defer func() { x.curLoop = nil }()
		}
		if li.body[from] {
			// back edge: invariant preservation, then the path ends
			if top && li.lc != nil {
				x.Cover(st, fmt.Sprintf("loop%d-body-completes", li.ordinal), to.Instrs[0].Pos())
				env := x.envAt(st)
				for i, c := range li.lc.Invariants {
					o := x.oblig(x.invName(li, i, c)+"/preserved", "invariant-pres", c.Tags, to.Instrs[0].Pos())
					o.Src = c.Text
					x.Assert(st, o, x.evalBool(env, c))
				}
				if li.lc.Decreases != nil {
					if before, ok := st.ghost["$dec"+fmt.Sprint(li.ordinal)]; ok {
						o := x.oblig(fmt.Sprintf("loop%d/decreases", li.ordinal), "decreases", li.lc.Decreases.Tags, to.Instrs[0].Pos())
						now := x.evalTerm(env, li.lc.Decreases)
						x.Assert(st, o, And(Lt(now, before), Ge(before, Zero)))
					}
				}
			}
			if top {
				x.autoRangeInv(st, li, "preserved")
				x.checkLockset(st, li)
			}
			st.dead = true
			return
		}
		// loop entry
		if top && li.lc != nil {
			env := x.envAt(st)
			for _, a := range li.lc.Enter {
				old, ok := st.ghost[a.Var]
				if !ok {
					panic(specErr{fmt.Sprintf("%s: enter set of undeclared ghost %s", x.name, a.Var)})
				}
				v := x.evalTerm(env, a.C)
				n := x.D.Fresh("gh_"+a.Var, old.Sort)
				st.Assume(Eq(n, v))
				st.ghost[a.Var] = n
			}
			for i, c := range li.lc.Invariants {
				o := x.oblig(x.invName(li, i, c)+"/init", "invariant-init", c.Tags, to.Instrs[0].Pos())
				o.Src = c.Text
				x.Assert(st, o, x.evalBool(env, c))
			}
		} else if top {
			x.note("loop %d (%s) has no invariant: havoc only", li.ordinal, li.src)
		}
		if top {
			x.autoRangeInv(st, li, "init")
		}
		var cnt0 Term
		if li.countVar != nil {
			if v, ok := fr.locals[li.countVar]; ok {
				cnt0 = v
			}
		}
		x.havocLoop(st, li)
		if cnt0.S != "" {
			// counting loop: the counter never drops below its initial value (engine-generated
			// invariant, re-proved at the back edge)
			st.ghost[fmt.Sprintf("$cnt%d", li.ordinal)] = cnt0
			st.Assume(Ge(fr.locals[li.countVar], cnt0))
			// ... and never passes the bound e of its test `i < e` by more than its initial value did,
			// when e is computed from state the loop does not modify: i <= max(i0, e)
			if b := x.countBound(li); b != nil {
				if y, ok := x.peekBound(st, li, b); ok {
					st.Assume(Or(Le(fr.locals[li.countVar], y), Le(fr.locals[li.countVar], cnt0)))
				}
			}
		}
		st.ghost[fmt.Sprintf("$held%d", li.ordinal)] = mk(SInt, fmt.Sprint(len(st.held)))
		if top && li.lc != nil {
			env := x.envAt(st)
			fr.blk = to // so that idx refers to the right loop
			for _, c := range li.lc.Invariants {
				st.Assume(x.evalBool(env, c))
			}
			if li.lc.Decreases != nil {
				d := x.D.Fresh("dec", SInt)
				st.Assume(Eq(d, x.evalTerm(env, li.lc.Decreases)))
				st.ghost["$dec"+fmt.Sprint(li.ordinal)] = d
			}
			x.Cover(st, fmt.Sprintf("loop%d-head", li.ordinal), to.Instrs[0].Pos())
		}
		if li.rangeIdx != nil {
			ri := st.fr.locals[li.rangeIdx]
			st.Assume(Ge(ri, IntLit(-1)))
			if li.rangeLen != nil {
				if lv, ok := st.fr.vals[li.rangeLen]; ok {
					st.Assume(Lt(ri, lv.(Term)))
				}
			}
		}
	}
	fr.prev = from
	fr.blk = to
	fr.idx = 0
}

func (x *Exec) checkLockset(st *State, li *loopInfo) {
	if n, ok := st.ghost[fmt.Sprintf("$held%d", li.ordinal)]; ok {
		if n.S != fmt.Sprint(len(st.held)) {
			o := x.oblig(fmt.Sprintf("loop%d/lockset-balanced", li.ordinal), "lockset", nil, li.head.Instrs[0].Pos())
			x.Assert(st, o, False)
		}
	}
}

// autoRangeInv proves -1 <= rangeindex < len for range loops (engine-generated invariant).
func (x *Exec) autoRangeInv(st *State, li *loopInfo, phase string) {
	if li.rangeIdx == nil {
		if c0, ok := st.ghost[fmt.Sprintf("$cnt%d", li.ordinal)]; ok && li.countVar != nil && phase == "preserved" {
			if v, ok := st.fr.locals[li.countVar]; ok {
				o := x.oblig(fmt.Sprintf("loop%d/counter-lower-bound/%s", li.ordinal, phase), "invariant-auto", nil, li.head.Instrs[0].Pos())
				x.Assert(st, o, Ge(v, c0))
				if b := x.countBound(li); b != nil {
					if y, ok := x.peekBound(st, li, b); ok {
						o2 := x.oblig(fmt.Sprintf("loop%d/counter-upper-bound/%s", li.ordinal, phase), "invariant-auto", nil, li.head.Instrs[0].Pos())
						x.Assert(st, o2, Or(Le(v, y), Le(v, c0)))
					}
				}
			}
		}
		return
	}
	// find the length operand in the head's comparison
	if li.rangeLen == nil {
		for _, in := range li.head.Instrs {
			if b, ok := in.(*ssa.BinOp); ok && b.Op == token.LSS {
				li.rangeLen = b.Y
			}
		}
	}
	if li.rangeLen == nil {
		return
	}
	lv, ok := st.fr.vals[li.rangeLen]
	if !ok {
		return
	}
	ri, ok := st.fr.locals[li.rangeIdx]
	if !ok {
		return
	}
	o := x.oblig(fmt.Sprintf("loop%d/range-index/%s", li.ordinal, phase), "invariant-auto", nil, li.head.Instrs[0].Pos())
	x.Assert(st, o, And(Ge(ri, IntLit(-1)), Lt(ri, lv.(Term))))
}

func (x *Exec) havocLoop(st *State, li *loopInfo) {
	// allocations inside the loop may advance the frontier
	nt := x.D.Fresh("top", SInt)
	st.Assume(Ge(nt, st.top))
	st.top = nt
	st.fresh = map[string]bool{}
	for _, a := range li.modLoc {
		delete(st.fr.lptrs, a)
		t := derefType(a.Type())
		st.fr.locals[a] = x.freshVal(st, t, "loc_"+a.Comment)
	}
	for _, k := range li.modKeys {
		if _, ok := x.keySort(k); ok {
			x.havocKey(st, k)
		}
	}
	for _, g := range li.modGhost {
		if old, ok := st.ghost[g]; ok {
			st.ghost[g] = x.D.Fresh("gh_"+g, old.Sort)
		}
	}
	if li.hasDefer {
		st.fr.defers = append(st.fr.defers, deferred{inLoop: true})
	}
}

func (x *Exec) step(st *State, in ssa.Instruction) {
	fr := st.fr
	switch i := in.(type) {
	case *ssa.DebugRef:
	case *ssa.Alloc:
		t := derefType(i.Type())
		if i.Heap {
			if isStruct(t) {
				fr.vals[i] = x.allocStruct(st, t, i.Comment)
			} else if arr, ok := types.Unalias(t).Underlying().(*types.Array); ok {
				// new [k]T: modelled as a slice base with k zero elements
				r := x.newRef(st, "arr")
				k := x.elemHeapKey(arr.Elem())
				zs := ArrSort(SInt, x.D.SortOf(arr.Elem()))
				x.setHeap(st, k, Store(x.heap(st, k), r, mk(zs, fmt.Sprintf("((as const %s) %s)", zs, x.D.ZeroOf(arr.Elem()).S))))
				fr.vals[i] = r
			} else {
				r := x.newRef(st, i.Comment)
				k := x.cellHeapKey(t)
				x.setHeap(st, k, Store(x.heap(st, k), r, x.D.ZeroOf(t)))
				fr.vals[i] = r
			}
		} else {
			fr.locals[i] = x.D.ZeroOf(t)
			fr.vals[i] = &Addr{Kind: aLocal, Alloc: i, Typ: t, Root: t}
		}
	case *ssa.Store:
		p := x.val(st, i.Addr)
		elem := derefType(i.Addr.Type())
		if pa, ok := p.(*Addr); ok && pa.Kind == aLocal && len(pa.Path) == 0 {
			if va, ok := x.val(st, i.Val).(*Addr); ok {
				if fr.lptrs == nil {
					fr.lptrs = map[*ssa.Alloc]*Addr{}
				}
				fr.lptrs[pa.Alloc] = va
				break
			}
			delete(fr.lptrs, pa.Alloc)
		}
		x.nilCheck(st, p, i, "store")
		x.fieldPolicy(st, p, true, i)
		v := x.term(st, x.val(st, i.Val), i.Val.Type())
		if _, isAddr := p.(*Addr); !isAddr || p.(*Addr).Kind != aLocal {
			x.escape(st, x.val(st, i.Val))
		}
		x.StoreTo(st, p, elem, v)
		x.fireHooks(st, in, "store", false, nil, nil)
	case *ssa.UnOp:
		x.unop(st, i)
		if st.dead {
			return
		}
	case *ssa.BinOp:
		fr.vals[i] = x.binop(st, i)
	case *ssa.FieldAddr:
		fr.vals[i] = x.fieldAddr(st, i)
	case *ssa.Field:
		v := x.tval(st, i.X)
		si := x.D.StructInfo(i.X.Type())
		f := si.fields[i.Field]
		fr.vals[i] = app(f.sort, f.acc, v)
	case *ssa.IndexAddr:
		fr.vals[i] = x.indexAddr(st, i)
	case *ssa.Index:
		xv := x.tval(st, i.X)
		iv := x.tval(st, i.Index)
		switch u := types.Unalias(i.X.Type()).Underlying().(type) {
		case *types.Array:
			x.boundsCheck(st, iv, IntLit(u.Len()), i, "index")
			fr.vals[i] = Select(xv, iv)
		default:
			fr.vals[i] = x.freshVal(st, i.Type(), "index")
		}
	case *ssa.Slice:
		x.sliceOp(st, i)
	case *ssa.Extract:
		tu := x.val(st, i.Tuple).(Tuple)
		fr.vals[i] = tu[i.Index]
	case *ssa.Phi:
		for k, p := range fr.blk.Preds {
			if p == fr.prev {
				fr.vals[i] = x.val(st, i.Edges[k])
			}
		}
		if _, ok := fr.vals[i]; !ok {
			panic("phi without predecessor")
		}
	case *ssa.Convert:
		fr.vals[i] = x.convert(st, i)
	case *ssa.ChangeType:
		fr.vals[i] = x.val(st, i.X)
	case *ssa.ChangeInterface:
		fr.vals[i] = x.val(st, i.X)
	case *ssa.MakeInterface:
		fr.vals[i] = x.makeIface(st, x.val(st, i.X), i.X.Type())
	case *ssa.TypeAssert:
		x.typeAssert(st, i)
	case *ssa.MakeMap:
		mt := types.Unalias(i.Type()).Underlying().(*types.Map)
		h, _, c := x.mapHeapKeys(mt)
		r := x.newRef(st, "map")
		hs := ArrSort(x.D.SortOf(mt.Key()), SBool)
		x.setHeap(st, h, Store(x.heap(st, h), r, mk(hs, fmt.Sprintf("((as const %s) false)", hs))))
		x.setHeap(st, c, Store(x.heap(st, c), r, Zero))
		fr.vals[i] = r
	case *ssa.MapUpdate:
		x.mapUpdate(st, i)
	case *ssa.Lookup:
		x.lookup(st, i)
	case *ssa.Range:
		x.rangeInit(st, i)
	case *ssa.Next:
		x.next(st, i)
		if st.dead {
			return
		}
	case *ssa.MakeSlice:
		st2 := types.Unalias(i.Type()).Underlying().(*types.Slice)
		ln := x.tval(st, i.Len)
		cp := x.tval(st, i.Cap)
		if x.wantNoPanic {
			o := x.oblig("nopanic[makeslice "+x.srcOf(i)+"]", "nopanic", nil, i.Pos())
			x.Assert(st, o, And(Ge(ln, Zero), Le(ln, cp)))
		} else {
			st.Assume(And(Ge(ln, Zero), Le(ln, cp)))
		}
		r := x.newRef(st, "slice")
		k := x.elemHeapKey(st2.Elem())
		zs := ArrSort(SInt, x.D.SortOf(st2.Elem()))
		x.setHeap(st, k, Store(x.heap(st, k), r, mk(zs, fmt.Sprintf("((as const %s) %s)", zs, x.D.ZeroOf(st2.Elem()).S))))
		fr.vals[i] = MkSlice(r, Zero, ln, cp)
	case *ssa.MakeChan:
		sz := x.tval(st, i.Size)
		if x.wantNoPanic {
			o := x.oblig("nopanic[makechan "+x.srcOf(i)+"]", "nopanic", nil, i.Pos())
			x.Assert(st, o, Ge(sz, Zero))
		} else {
			st.Assume(Ge(sz, Zero))
		}
		r := x.newRef(st, "chan")
		x.setHeap(st, kChCap, Store(x.heap(st, kChCap), r, sz))
		x.setHeap(st, kChClosed, Store(x.heap(st, kChClosed), r, False))
		if gs, ok := x.CS.GhostHeaps["ChCredit"]; ok {
			// make(chan T, n) creates n send credits (DESIGN.md 2.4-2)
			x.regHeap("G!ChCredit", gs)
			x.setHeap(st, "G!ChCredit", Store(x.heap(st, "G!ChCredit"), r, sz))
		}
		fr.vals[i] = r
		x.fireHooks(st, in, "makechan", true, nil, []SymVal{r})
	case *ssa.MakeClosure:
		fn := i.Fn.(*ssa.Function)
		var bs []SymVal
		for _, b := range i.Bindings {
			bs = append(bs, x.val(st, b))
		}
		h := x.D.Fresh("closure", SInt)
		st.Assume(Gt(h, mk(SInt, "2000000000")))
		fv := &FuncVal{Fn: fn, Bindings: bs, Handle: h}
		st.closures[h.S] = fv
		fr.vals[i] = fv
	case *ssa.Call:
		if x.doCall(st, i, &i.Call, "call", nil) {
			return // frame pushed; do not advance
		}
		if st.dead {
			return
		}
	case *ssa.Go:
		x.doGo(st, i)
	case *ssa.Defer:
		x.doDefer(st, i)
	case *ssa.RunDefers:
		if len(fr.defers) > 0 {
			d := fr.defers[len(fr.defers)-1]
			fr.defers = fr.defers[:len(fr.defers)-1]
			if d.inLoop {
				x.note("defers issued inside a loop are summarised by their write sets")
				return
			}
			if x.doCall(st, i, d.call, "deferred", &d) {
				return
			}
			return // re-execute rundefers until the stack is empty
		}
	case *ssa.Send:
		x.doSend(st, i)
	case *ssa.Select:
		x.doSelect(st, i)
		return
	case *ssa.If:
		c := x.tval(st, i.Cond)
		t, f := fr.blk.Succs[0], fr.blk.Succs[1]
		switch c.S {
		case "true":
			x.goTo(st, fr.blk, t)
		case "false":
			x.goTo(st, fr.blk, f)
		default:
			s2 := x.fork(st, fmt.Sprintf("b%d:F", fr.blk.Index))
			s2.Restrict(Not(c))
			x.goTo(s2, s2.fr.blk, f)
			x.run(s2)
			st.path = append(st.path, fmt.Sprintf("b%d:T", fr.blk.Index))
			st.Restrict(c)
			x.goTo(st, fr.blk, t)
		}
		return
	case *ssa.Jump:
		x.goTo(st, fr.blk, fr.blk.Succs[0])
		return
	case *ssa.Return:
		x.doReturn(st, i)
		return
	case *ssa.Panic:
		if fr.parent == nil || x.wantNoPanic {
			if x.wantNoPanic {
				o := x.oblig("nopanic[panic "+x.srcOf(i)+"]", "nopanic", nil, i.Pos())
				x.Assert(st, o, False)
			}
		}
		st.dead = true
		return
	case *ssa.SliceToArrayPointer, *ssa.MultiConvert:
		fr.vals[i.(ssa.Value)] = x.freshVal(st, i.(ssa.Value).Type(), "conv")
	default:
		panic(fmt.Sprintf("unsupported instruction %T: %s", in, in))
	}
	fr.idx++
}

func (x *Exec) srcOf(in ssa.Instruction) string {
	s := x.P.ExprTextAt(in.Pos())
	if i := strings.Index(s, " {"); i > 0 {
		s = s[:i]
	}
	if len(s) > 60 {
		s = s[:60]
	}
	return s
}

// nilCheck generates the nil-dereference obligation for pointer value p.
func (x *Exec) nilCheck(st *State, p SymVal, in ssa.Instruction, what string) {
	var ref Term
	switch a := p.(type) {
	case Term:
		ref = a
	case *Addr:
		if a.Kind == aLocal {
			return
		}
		if a.Kind == aElem {
			return
		}
		ref = a.Ref
	default:
		return
	}
	if st.fresh[ref.S] || strings.HasPrefix(ref.S, "glob_") {
		return
	}
	goal := Neq(ref, Zero)
	if x.wantNoPanic {
		o := x.oblig("nopanic[nil "+what+" "+x.srcOf(in)+"]", "nopanic", nil, in.Pos())
		x.Assert(st, o, goal)
	} else {
		st.Restrict(goal)
	}
}

func (x *Exec) boundsCheck(st *State, idx, ln Term, in ssa.Instruction, what string) {
	goal := And(Ge(idx, Zero), Lt(idx, ln))
	if x.wantNoPanic {
		o := x.oblig("nopanic["+what+" "+x.srcOf(in)+"]", "nopanic", nil, in.Pos())
		x.Assert(st, o, goal)
	} else {
		st.Restrict(goal)
	}
}

func (x *Exec) fieldAddr(st *State, i *ssa.FieldAddr) SymVal {
	base := x.val(st, i.X)
	stT := derefType(i.X.Type())
	si := x.D.StructInfo(stT)
	f := si.fields[i.Field]
	switch b := base.(type) {
	case Term:
		x.nilCheck(st, b, i, "field")
		k, _ := x.fieldHeapKey(stT, i.Field)
		return &Addr{Kind: aField, Ref: b, Key: k, Typ: f.typ, Root: f.typ}
	case *Addr:
		n := *b
		n.Path = append(append([]pathStep(nil), b.Path...), pathStep{si: si, field: i.Field})
		n.Typ = f.typ
		return &n
	}
	panic(fmt.Sprintf("fieldAddr on %T", base))
}

func (x *Exec) indexAddr(st *State, i *ssa.IndexAddr) SymVal {
	idx := x.tval(st, i.Index)
	switch u := types.Unalias(i.X.Type()).Underlying().(type) {
	case *types.Slice:
		s := x.tval(st, i.X)
		x.boundsCheck(st, idx, SlLen(s), i, "index")
		return &Addr{Kind: aElem, Ref: SlBase(s), Idx: SlIdx(s, idx), Key: x.elemHeapKey(u.Elem()), Typ: u.Elem(), Root: u.Elem()}
	case *types.Pointer:
		arr := types.Unalias(u.Elem()).Underlying().(*types.Array)
		base := x.val(st, i.X)
		x.boundsCheck(st, idx, IntLit(arr.Len()), i, "index")
		switch b := base.(type) {
		case Term:
			return &Addr{Kind: aElem, Ref: b, Idx: idx, Key: x.elemHeapKey(arr.Elem()), Typ: arr.Elem(), Root: arr.Elem()}
		case *Addr:
			n := *b
			ix := idx
			n.Path = append(append([]pathStep(nil), b.Path...), pathStep{idx: &ix})
			n.Typ = arr.Elem()
			return &n
		}
	}
	panic("indexAddr: unsupported " + i.X.Type().String())
}

func (x *Exec) sliceOp(st *State, i *ssa.Slice) {
	fr := st.fr
	var lo, hi, mx *Term
	if i.Low != nil {
		t := x.tval(st, i.Low)
		lo = &t
	}
	if i.High != nil {
		t := x.tval(st, i.High)
		hi = &t
	}
	if i.Max != nil {
		t := x.tval(st, i.Max)
		mx = &t
	}
	l := Zero
	if lo != nil {
		l = *lo
	}
	check := func(goal Term) {
		if x.wantNoPanic {
			o := x.oblig("nopanic[slice "+x.srcOf(i)+"]", "nopanic", nil, i.Pos())
			x.Assert(st, o, goal)
		} else {
			st.Restrict(goal)
		}
	}
	switch u := types.Unalias(i.X.Type()).Underlying().(type) {
	case *types.Slice:
		s := x.tval(st, i.X)
		h := SlLen(s)
		if hi != nil {
			h = *hi
		}
		m := SlCap(s)
		if mx != nil {
			m = *mx
		}
		check(And(Ge(l, Zero), Le(l, h), Le(h, m), Le(m, SlCap(s))))
		fr.vals[i] = app(SSlice, "subsl", s, l, h, m)
	case *types.Pointer:
		arr := types.Unalias(u.Elem()).Underlying().(*types.Array)
		base := x.tval(st, i.X)
		n := IntLit(arr.Len())
		h := n
		if hi != nil {
			h = *hi
		}
		if lo == nil && hi == nil {
			fr.vals[i] = MkSlice(base, Zero, n, n)
			return
		}
		check(And(Ge(l, Zero), Le(l, h), Le(h, n)))
		fr.vals[i] = MkSlice(base, l, Sub(h, l), Sub(n, l))
	case *types.Basic: // string
		s := x.tval(st, i.X)
		h := app(SInt, "strlen", s)
		if hi != nil {
			h = *hi
		}
		check(And(Ge(l, Zero), Le(l, h), Le(h, app(SInt, "strlen", s))))
		r := x.D.Fresh("substr", SStr)
		st.Assume(Eq(app(SInt, "strlen", r), Sub(h, l)))
		fr.vals[i] = r
	default:
		panic("slice of " + i.X.Type().String())
	}
}

func (x *Exec) unop(st *State, i *ssa.UnOp) {
	fr := st.fr
	switch i.Op {
	case token.MUL:
		if g, ok := i.X.(*ssa.Global); ok {
			if f := x.P.VarFuncs[x.P.pkgPrefix(g.Pkg.Pkg.Path())+"var "+g.Name()]; f != nil {
				// package-level function variable, never reassigned (listed assumption, scanned)
				x.note("package-level function variable %s read as a constant (assigned by the initialiser only: obligation globals/immutable[%s] where declared)", g.Name(), g.Name())
				fv := &FuncVal{Fn: f, Handle: x.D.FuncHandle(f.String())}
				st.closures[fv.Handle.S] = fv
				fr.vals[i] = fv
				return
			}
		}
		p := x.val(st, i.X)
		if pa, ok := p.(*Addr); ok && pa.Kind == aLocal && len(pa.Path) == 0 {
			if va, ok := fr.lptrs[pa.Alloc]; ok {
				fr.vals[i] = va
				return
			}
		}
		x.nilCheck(st, p, i, "load")
		x.fieldPolicy(st, p, false, i)
		v := x.Load(st, p, i.Type())
		// values read from memory are well-formed
		if _, isAddr := p.(*Addr); !isAddr || p.(*Addr).Kind != aLocal {
			st.Assume(x.D.WF(v, i.Type(), x.loadTop(st, p, i.Type()), 2))
		}
		// function values loaded back: resolve closures by handle
		fr.vals[i] = v
	case token.NOT:
		fr.vals[i] = Not(x.tval(st, i.X))
	case token.SUB:
		v := x.tval(st, i.X)
		fr.vals[i] = app(v.Sort, "-", v)
	case token.XOR:
		v := x.tval(st, i.X)
		x.D.Fun("bitnot", []string{SInt}, SInt)
		fr.vals[i] = app(SInt, "bitnot", v)
	case token.ARROW:
		x.doRecv(st, i)
	default:
		panic("unop " + i.Op.String())
	}
}

func isNilConst(v ssa.Value) bool {
	c, ok := v.(*ssa.Const)
	return ok && c.Value == nil && !isBasicNonNil(c.Type())
}

func isBasicNonNil(t types.Type) bool {
	b, ok := types.Unalias(t).Underlying().(*types.Basic)
	return ok && b.Kind() != types.UntypedNil && b.Kind() != types.UnsafePointer
}

func (x *Exec) binop(st *State, i *ssa.BinOp) SymVal {
	a := x.tval(st, i.X)
	b := x.tval(st, i.Y)
	ut := types.Unalias(i.X.Type()).Underlying()
	switch i.Op {
	case token.EQL, token.NEQ:
		var eq Term
		switch ut.(type) {
		case *types.Slice:
			if isNilConst(i.Y) {
				eq = Eq(SlBase(a), Zero)
			} else if isNilConst(i.X) {
				eq = Eq(SlBase(b), Zero)
			} else {
				eq = Eq(a, b)
			}
		case *types.Interface:
			if isNilConst(i.Y) {
				eq = Eq(ITy(a), Zero)
			} else if isNilConst(i.X) {
				eq = Eq(ITy(b), Zero)
			} else {
				eq = Eq(a, b)
			}
		default:
			if a.Sort != b.Sort {
				// comparison of interface with concrete value etc.
				eq = x.D.Fresh("cmp", SBool)
			} else {
				eq = Eq(a, b)
			}
		}
		if i.Op == token.NEQ {
			return Not(eq)
		}
		return eq
	}
	if a.Sort == SBool {
		switch i.Op {
		case token.LAND, token.AND:
			return And(a, b)
		case token.LOR, token.OR:
			return Or(a, b)
		}
	}
	if a.Sort == SStr {
		switch i.Op {
		case token.ADD:
			x.D.Fun("strcat", []string{SStr, SStr}, SStr)
			x.D.Raw("(assert (forall ((a Str) (b Str)) (! (= (strlen (strcat a b)) (+ (strlen a) (strlen b))) :pattern ((strcat a b)))))")
			return app(SStr, "strcat", a, b)
		case token.LSS, token.GTR, token.LEQ, token.GEQ:
			x.D.Fun("strlt", []string{SStr, SStr}, SBool)
			switch i.Op {
			case token.LSS:
				return app(SBool, "strlt", a, b)
			case token.GTR:
				return app(SBool, "strlt", b, a)
			case token.LEQ:
				return Not(app(SBool, "strlt", b, a))
			default:
				return Not(app(SBool, "strlt", a, b))
			}
		}
	}
	switch i.Op {
	case token.ADD:
		r := Add(a, b)
		x.overflowCheck(st, r, i)
		return r
	case token.SUB:
		r := Sub(a, b)
		x.overflowCheck(st, r, i)
		return r
	case token.MUL:
		r := Mul(a, b)
		x.overflowCheck(st, r, i)
		return r
	case token.QUO:
		if a.Sort == SReal {
			return app(SReal, "/", a, b)
		}
		if x.wantNoPanic {
			o := x.oblig("nopanic[div "+x.srcOf(i)+"]", "nopanic", nil, i.Pos())
			x.Assert(st, o, Neq(b, Zero))
		} else {
			st.Restrict(Neq(b, Zero))
		}
		// Go truncates toward zero
		q := app(SInt, "div", app(SInt, "abs", a), app(SInt, "abs", b))
		return Ite(Eq(Lt(a, Zero), Lt(b, Zero)), q, app(SInt, "-", q))
	case token.REM:
		if x.wantNoPanic {
			o := x.oblig("nopanic[div "+x.srcOf(i)+"]", "nopanic", nil, i.Pos())
			x.Assert(st, o, Neq(b, Zero))
		} else {
			st.Restrict(Neq(b, Zero))
		}
		m := app(SInt, "mod", app(SInt, "abs", a), app(SInt, "abs", b))
		return Ite(Lt(a, Zero), app(SInt, "-", m), m)
	case token.LSS:
		return Lt(a, b)
	case token.LEQ:
		return Le(a, b)
	case token.GTR:
		return Gt(a, b)
	case token.GEQ:
		return Ge(a, b)
	case token.AND, token.OR, token.XOR, token.SHL, token.SHR, token.AND_NOT:
		name := "bitop_" + mangle(i.Op.String())
		x.D.Fun(name, []string{SInt, SInt}, SInt)
		r := app(SInt, name, a, b)
		st.Assume(x.D.WF(r, i.Type(), st.top, 0))
		return r
	}
	panic("binop " + i.Op.String())
}

func (x *Exec) overflowCheck(st *State, r Term, i *ssa.BinOp) {
	if r.Sort != SInt {
		return
	}
	b, ok := types.Unalias(i.Type()).Underlying().(*types.Basic)
	if !ok {
		return
	}
	lo, hi, ok := intRange(b)
	if !ok {
		return
	}
	goal := And(Le(mk(SInt, lo), r), Le(r, mk(SInt, hi)))
	if x.fc != nil && x.fc.Opts["overflow"] == "check" && st.fr.parent == nil {
		o := x.oblig("nooverflow["+x.srcOf(i)+"]", "overflow", nil, i.Pos())
		x.Assert(st, o, goal)
	}
	// machine arithmetic treated as mathematical (listed assumption)
}

func (x *Exec) convert(st *State, i *ssa.Convert) SymVal {
	v := x.tval(st, i.X)
	from := types.Unalias(i.X.Type()).Underlying()
	to := types.Unalias(i.Type()).Underlying()
	fb, fok := from.(*types.Basic)
	tb, tok := to.(*types.Basic)
	if fok && tok {
		switch {
		case fb.Info()&types.IsInteger != 0 && tb.Info()&types.IsInteger != 0:
			lo, hi, ok := intRange(tb)
			if !ok {
				return v
			}
			flo, fhi, _ := intRange(fb)
			if flo == lo && fhi == hi {
				return v
			}
			in := And(Le(mk(SInt, lo), v), Le(v, mk(SInt, hi)))
			r := x.D.Fresh("conv", SInt)
			st.Assume(Implies(in, Eq(r, v)))
			st.Assume(And(Le(mk(SInt, lo), r), Le(r, mk(SInt, hi))))
			return r
		case fb.Info()&types.IsInteger != 0 && tb.Info()&types.IsFloat != 0:
			return app(SReal, "to_real", v)
		case fb.Info()&types.IsFloat != 0 && tb.Info()&types.IsInteger != 0:
			return x.freshVal(st, i.Type(), "f2i")
		case fb.Info()&types.IsFloat != 0 && tb.Info()&types.IsFloat != 0:
			return v
		case fb.Info()&types.IsString != 0 && tb.Info()&types.IsString != 0:
			return v
		case fb.Info()&types.IsInteger != 0 && tb.Info()&types.IsString != 0:
			return x.D.Fresh("i2s", SStr)
		}
	}
	if x.D.SortOf(i.X.Type()) == x.D.SortOf(i.Type()) {
		if _, ok := to.(*types.Basic); ok {
			return v
		}
		if _, ok := to.(*types.Pointer); ok {
			return v
		}
	}
	// string <-> []byte and friends: fresh value
	x.note("conversion %s -> %s abstracted", i.X.Type(), i.Type())
	r := x.freshVal(st, i.Type(), "conv")
	if fok && fb.Info()&types.IsString != 0 {
		if _, ok := to.(*types.Slice); ok {
			// []byte(s): a fresh slice that remembers the string it was made from
			if rt := r; rt.Sort == SSlice {
				st.Assume(Eq(app(SStr, "strsrc", SlBase(rt)), v))
				st.Assume(Neq(SlBase(rt), Zero))
			}
		}
	}
	return r
}

func (x *Exec) boxFuns(sort string) (string, string) {
	b, u := "box_"+mangle(sort), "unbox_"+mangle(sort)
	x.D.Fun(b, []string{sort}, SInt)
	x.D.Fun(u, []string{SInt}, sort)
	x.D.Raw(fmt.Sprintf("(assert (forall ((v %s)) (! (= (%s (%s v)) v) :pattern ((%s v)))))", sort, u, b, b))
	x.D.Raw(fmt.Sprintf("(assert (forall ((v %s)) (! (>= (%s v) 0) :pattern ((%s v)))))", sort, b, b))
	return b, u
}

func (x *Exec) makeIface(st *State, v SymVal, t types.Type) Term {
	if _, ok := types.Unalias(t).Underlying().(*types.Interface); ok {
		return x.term(st, v, t)
	}
	tid := IntLit(int64(x.D.TypeID(t)))
	tv := x.term(st, v, t)
	switch {
	case isStruct(t):
		r := x.newRef(st, "box")
		x.storeStruct(st, r, t, tv)
		delete(st.fresh, r.S)
		return MkIface(tid, r)
	case tv.Sort == SInt:
		return MkIface(tid, tv)
	case tv.Sort == SBool:
		return MkIface(tid, Ite(tv, IntLit(1), Zero))
	default:
		b, _ := x.boxFuns(tv.Sort)
		return MkIface(tid, app(SInt, b, tv))
	}
}

func (x *Exec) unbox(st *State, iv Term, t types.Type) Term {
	sort := x.D.SortOf(t)
	switch {
	case isStruct(t):
		return x.loadStruct(st, IVal(iv), t)
	case sort == SInt:
		return IVal(iv)
	case sort == SBool:
		return Eq(IVal(iv), IntLit(1))
	default:
		_, u := x.boxFuns(sort)
		return app(sort, u, IVal(iv))
	}
}

// implPred returns the predicate "dynamic type id implements interface t".
func (x *Exec) implPred(t types.Type) string {
	name := "impl_" + mangle(shortTypeKey(t))
	x.D.Fun(name, []string{SInt}, SBool)
	x.implLocal[name] = t
	return name
}

func (x *Exec) typeAssert(st *State, i *ssa.TypeAssert) {
	fr := st.fr
	v := x.tval(st, i.X)
	var ok Term
	var val Term
	if _, isI := types.Unalias(i.AssertedType).Underlying().(*types.Interface); isI {
		ok = And(Neq(ITy(v), Zero), app(SBool, x.implPred(i.AssertedType), ITy(v)))
		val = v
	} else {
		ok = Eq(ITy(v), IntLit(int64(x.D.TypeID(i.AssertedType))))
		val = x.unbox(st, v, i.AssertedType)
	}
	if i.CommaOk {
		okc := x.D.Fresh("taok", SBool)
		st.Assume(Eq(okc, ok))
		res := Ite(okc, val, x.D.ZeroOf(i.AssertedType))
		fr.vals[i] = Tuple{res, okc}
		return
	}
	if x.wantNoPanic {
		o := x.oblig("nopanic[type-assert "+x.srcOf(i)+"]", "nopanic", nil, i.Pos())
		x.Assert(st, o, ok)
	} else {
		st.Restrict(ok)
	}
	if val.Sort == SInt {
		st.Assume(x.D.WF(val, i.AssertedType, st.top, 0))
	}
	fr.vals[i] = val
}

func (x *Exec) mapUpdate(st *State, i *ssa.MapUpdate) {
	mt := types.Unalias(i.Map.Type()).Underlying().(*types.Map)
	hk, vk, ck := x.mapHeapKeys(mt)
	m := x.tval(st, i.Map)
	k := x.tval(st, i.Key)
	v := x.term(st, x.val(st, i.Value), i.Value.Type())
	x.escape(st, x.val(st, i.Value))
	if !st.fresh[m.S] {
		if x.wantNoPanic {
			o := x.oblig("nopanic[nil map "+x.srcOf(i)+"]", "nopanic", nil, i.Pos())
			x.Assert(st, o, Neq(m, Zero))
		} else {
			st.Restrict(Neq(m, Zero))
		}
	}
	x.mapFieldPolicy(st, i.Map, true, i)
	x.fireHooks(st, i, "mapupdate", false, []SymVal{m, k, v}, nil)
	H, V, C := x.heap(st, hk), x.heap(st, vk), x.heap(st, ck)
	had := Select(Select(H, m), k)
	x.setHeap(st, ck, Store(C, m, Add(Select(C, m), Ite(had, Zero, IntLit(1)))))
	x.setHeap(st, hk, Store(H, m, Store(Select(H, m), k, True)))
	x.setHeap(st, vk, Store(V, m, Store(Select(V, m), k, v)))
}

func (x *Exec) lookup(st *State, i *ssa.Lookup) {
	fr := st.fr
	mt, isMap := types.Unalias(i.X.Type()).Underlying().(*types.Map)
	if !isMap {
		// string index
		s := x.tval(st, i.X)
		idx := x.tval(st, i.Index)
		x.boundsCheck(st, idx, app(SInt, "strlen", s), i, "index")
		fr.vals[i] = x.freshVal(st, i.Type(), "byte")
		return
	}
	hk, vk, _ := x.mapHeapKeys(mt)
	m := x.tval(st, i.X)
	k := x.tval(st, i.Index)
	x.mapFieldPolicy(st, i.X, false, i)
	has := And(Neq(m, Zero), Select(Select(x.heap(st, hk), m), k))
	val := Ite(has, Select(Select(x.heap(st, vk), m), k), x.D.ZeroOf(mt.Elem()))
	if i.CommaOk {
		hc := x.D.Fresh("has", SBool)
		st.Assume(Eq(hc, has))
		vv := Ite(hc, Select(Select(x.heap(st, vk), m), k), x.D.ZeroOf(mt.Elem()))
		st.Assume(Implies(hc, x.D.WF(vv, mt.Elem(), st.top, 1)))
		fr.vals[i] = Tuple{vv, hc}
	} else {
		st.Assume(Implies(has, x.D.WF(val, mt.Elem(), st.top, 1)))
		fr.vals[i] = val
	}
}

func (x *Exec) rangeInit(st *State, i *ssa.Range) {
	fr := st.fr
	mt, isMap := types.Unalias(i.X.Type()).Underlying().(*types.Map)
	if !isMap {
		fr.vals[i] = &IterVal{IsStr: true}
		return
	}
	m := x.tval(st, i.X)
	gname := fmt.Sprintf("$visited_%s", i.Name())
	ks := x.D.SortOf(mt.Key())
	as := ArrSort(ks, SBool)
	st.ghost[gname] = mk(as, fmt.Sprintf("((as const %s) false)", as))
	st.ghost[gname+"_n"] = Zero
	x.mapFieldPolicy(st, i.X, false, i)
	it := &IterVal{Map: m, MapT: mt, Visited: gname}
	st.iters[gname] = it
	fr.vals[i] = it
}

func (x *Exec) next(st *State, i *ssa.Next) {
	fr := st.fr
	it := x.val(st, i.Iter).(*IterVal)
	tt := i.Type().(*types.Tuple)
	if it.IsStr {
		ok := x.D.Fresh("ok", SBool)
		fr.vals[i] = Tuple{ok, x.freshVal(st, tt.At(1).Type(), "k"), x.freshVal(st, tt.At(2).Type(), "v")}
		return
	}
	hk, vk, _ := x.mapHeapKeys(it.MapT)
	ks := x.D.SortOf(it.MapT.Key())
	has := Select(x.heap(st, hk), it.Map)
	vis := st.ghost[it.Visited]
	// exhausted: every key still present has been visited
	s2 := x.fork(st, fmt.Sprintf("b%d:range-done", fr.blk.Index))
	q := fmt.Sprintf("(forall ((k!q %s)) (! (=> (select %s k!q) (select %s k!q)) :pattern ((select %s k!q))))", ks, has.S, vis.S, has.S)
	s2.Restrict(Or(Eq(it.Map, Zero), mk(SBool, q)))
	s2.fr.vals[i] = Tuple{False, x.D.ZeroOf(it.MapT.Key()), x.D.ZeroOf(it.MapT.Elem())}
	s2.fr.idx++
	x.run(s2)
	// next key
	st.path = append(st.path, fmt.Sprintf("b%d:range-next", fr.blk.Index))
	k := x.freshVal(st, it.MapT.Key(), "key")
	st.Restrict(Neq(it.Map, Zero))
	st.Restrict(Select(has, k))
	st.Restrict(Not(Select(vis, k)))
	v := Select(Select(x.heap(st, vk), it.Map), k)
	st.Assume(x.D.WF(v, it.MapT.Elem(), st.top, 1))
	st.ghost[it.Visited] = Store(vis, k, True)
	st.ghost[it.Visited+"_n"] = Add(st.ghost[it.Visited+"_n"], IntLit(1))
	fr.vals[i] = Tuple{True, k, v}
}
