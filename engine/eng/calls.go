package eng

import (
	"fmt"
	"go/token"
	"go/types"
	"sort"
	"strings"

	"golang.org/x/tools/go/ssa"
)

const maxInlineDepth = 6

func hasLoops(fn *ssa.Function) bool {
	for _, b := range fn.Blocks {
		for _, s := range b.Succs {
			if s.Dominates(b) {
				return true
			}
		}
	}
	return false
}

// resolveCallee determines what is being called.
func (x *Exec) resolveCallee(st *State, c *ssa.CallCommon) (fv *FuncVal, callee Term, isBuiltin *ssa.Builtin) {
	if b, ok := c.Value.(*ssa.Builtin); ok {
		return nil, Term{}, b
	}
	v := x.val(st, c.Value)
	switch f := v.(type) {
	case *FuncVal:
		return f, f.Handle, nil
	case Term:
		if cl, ok := st.closures[f.S]; ok {
			return cl, f, nil
		}
		return nil, f, nil
	}
	return nil, Term{}, nil
}

// doCall executes a call. It returns true when a frame was pushed (inlining);
// the caller must then not advance the instruction index.
func (x *Exec) doCall(st *State, in ssa.Instruction, c *ssa.CallCommon, mode string, d *deferred) bool {
	fr := st.fr
	var resVal ssa.Value
	if call, ok := in.(*ssa.Call); ok {
		resVal = call
	}
	setRes := func(r SymVal) {
		if resVal != nil && mode == "call" {
			fr.vals[resVal] = r
		}
	}
	advance := func() {}
	_ = advance

	// evaluate arguments
	var args []SymVal
	var fv *FuncVal
	var calleeT Term
	var bi *ssa.Builtin
	if d != nil {
		args = d.args
		switch f := d.fnv.(type) {
		case *FuncVal:
			fv = f
		case *ssa.Builtin:
			bi = f
		case Term:
			calleeT = f
			if cl, ok := st.closures[f.S]; ok {
				fv = cl
			}
		}
	} else {
		if !c.IsInvoke() {
			fv, calleeT, bi = x.resolveCallee(st, c)
		}
		for _, a := range c.Args {
			args = append(args, x.val(st, a))
		}
	}

	if bi == nil && d == nil && st.fr.parent == nil {
		// a slice or map loaded from a guarded field and handed to a call may be written through
		// (sorting in place): that needs the guarding lock held exclusively
		for _, a := range c.Args {
			switch types.Unalias(a.Type()).Underlying().(type) {
			case *types.Slice, *types.Map:
				x.mapFieldPolicy(st, a, true, in)
			}
		}
	}
	if bi != nil {
		hooked := bi.Name() != "close" && bi.Name() != "delete"
		if hooked {
			x.fireHooks(st, in, hookKind(mode), false, args, nil)
		}
		r := x.builtin(st, in, bi, c, args)
		if st.dead {
			return false
		}
		setRes(r)
		if hooked && r != nil {
			x.fireHooks(st, in, hookKind(mode), true, args, []SymVal{r})
		}
		return false
	}

	sig := c.Signature()
	results := sig.Results()

	if c.IsInvoke() {
		var recv Term
		if d != nil {
			recv = d.fnv.(Term)
		} else {
			recv = x.tval(st, c.Value)
		}
		name := "(" + typeKey(c.Value.Type()) + ")." + c.Method.Name()
		if x.wantNoPanic {
			o := x.oblig("nopanic[nil interface call "+x.srcOf(in)+"]", "nopanic", nil, in.Pos())
			x.Assert(st, o, Neq(ITy(recv), Zero))
		} else {
			st.Restrict(Neq(ITy(recv), Zero))
		}
		all := append([]SymVal{recv}, args...)
		x.fireHooks(st, in, hookKind(mode), false, all, nil)
		var res []SymVal
		if r, ok := x.intrinsic(st, in, name, all, results); ok {
			res = r
		} else if stub := x.W.StubFor(name); stub != nil {
			res = x.applyContract(st, in, stub, nil, name, c, all, results)
		} else if impls := x.closedImpls(c); len(impls) > 0 && mode == "call" && d == nil {
			// closed-world dispatch: the interface has an unexported method, so only the types of its own
			// package implement it; one path per implementer, each checked against ITS contract
			for k, im := range impls {
				q := st
				label := fmt.Sprintf("b%d:dyn[%s]", fr.blk.Index, shortTypeKey(im.dyn))
				if k < len(impls)-1 {
					q = x.fork(st, label)
				} else {
					q.path = append(q.path, label)
				}
				q.Restrict(Eq(ITy(recv), IntLit(int64(x.D.TypeID(im.dyn)))))
				rv := x.unbox(q, recv, im.dyn)
				if im.deref != nil {
					if x.wantNoPanic {
						o := x.oblig("nopanic[nil receiver "+shortTypeKey(im.dyn)+" "+x.srcOf(in)+"]", "nopanic", nil, in.Pos())
						x.Assert(q, o, Neq(rv, Zero))
					} else {
						q.Restrict(Neq(rv, Zero))
					}
					rv = x.loadStruct(q, rv, im.deref)
				} else if rv.Sort == SInt {
					q.Assume(x.D.WF(rv, im.dyn, q.top, 0))
				}
				cargs := append([]SymVal{rv}, args...)
				cname := x.P.ShortName(im.fn)
				var r []SymVal
				if fc := x.W.ContractFor(im.fn); fc != nil && !fc.Inline && (fc.Trusted || len(fc.Ensures) > 0 || len(fc.Requires) > 0) {
					x.ByContract[cname] = true
					fake := &ssa.CallCommon{Value: im.fn}
					r = x.applyContract(q, in, fc, im.fn, cname, fake, cargs, results)
				} else {
					for _, a := range cargs {
						x.escape(q, a)
					}
					x.advanceTop(q)
					for key := range x.W.fnWrites(x, im.fn) {
						if _, ok := x.keySort(key); ok {
							x.havocKey(q, key)
						}
					}
					x.Abstracted[cname] = true
					r = x.freshResults(q, results, "dyn_"+c.Method.Name())
				}
				x.fireHooks(q, in, hookKind(mode), true, all, r)
				if resVal != nil {
					q.fr.vals[resVal] = packResults(r)
				}
				if k < len(impls)-1 {
					q.fr.idx++
					x.run(q)
				}
			}
			if !x.Dispatched[name] {
				var ts []string
				for _, im := range impls {
					ts = append(ts, shortTypeKey(im.dyn))
				}
				x.Notes = append(x.Notes, "interface call "+name+" resolved by closed-world dispatch over the implementers of its package ("+strings.Join(ts, ", ")+"), each against its own contract; dynamic types of other packages that merely embed the interface are not considered")
			}
			x.Dispatched[name] = true
			return false
		} else {
			x.Abstracted[name] = true
			for _, a := range args {
				x.escape(st, a)
			}
			x.advanceTop(st)
			res = x.freshResults(st, results, "inv_"+c.Method.Name())
		}
		x.fireHooks(st, in, hookKind(mode), true, all, res)
		setRes(packResults(res))
		return false
	}

	if fv == nil {
		if nt, ok := types.Unalias(c.Value.Type()).(*types.Named); ok {
			if sfn, ok := x.CS.FunTypes[nt.Obj().Name()]; ok && results.Len() == 1 {
				// pure function value: result is a spec function of the callee and its arguments
				for _, sf := range x.CS.SpecFuns {
					if sf.Name == sfn {
						x.W.declareSpecFun(x, sf)
					}
				}
				if x.wantNoPanic {
					o := x.oblig("nopanic[nil func call "+x.srcOf(in)+"]", "nopanic", nil, in.Pos())
					x.Assert(st, o, Neq(calleeT, Zero))
				}
				ts := []Term{calleeT}
				for k, a := range args {
					ts = append(ts, x.term(st, a, c.Args[k].Type()))
				}
				r := app(x.D.SortOf(results.At(0).Type()), "sf_"+sfn, ts...)
				setRes(r)
				return false
			}
		}
		// call through an unknown function value (user-supplied): uninterpreted
		txt, _ := x.P.CallText(in.Pos())
		x.UserCalls[txt] = true
		if x.wantNoPanic {
			o := x.oblig("nopanic[nil func call "+x.srcOf(in)+"]", "nopanic", nil, in.Pos())
			x.Assert(st, o, Neq(calleeT, Zero))
		} else if calleeT.S != "" {
			st.Restrict(Neq(calleeT, Zero))
		}
		x.fireHooks(st, in, hookKind(mode), false, args, nil)
		x.advanceTop(st)
		// objects handed over by pointer may be modified
		for k, a := range args {
			var at types.Type
			if k < len(c.Args) {
				at = c.Args[k].Type()
			}
			if t, ok := a.(Term); ok && at != nil {
				if pt := derefType(at); pt != nil {
					x.havocObject(st, t, pt)
				}
			}
			x.escape(st, a)
		}
		res := x.freshResults(st, results, "ufn")
		x.fireHooks(st, in, hookKind(mode), true, args, res)
		setRes(packResults(res))
		return false
	}

	callee := fv.Fn
	full := callee.String()
	x.fireHooks(st, in, hookKind(mode), false, args, nil)

	if r, ok := x.intrinsic(st, in, full, args, results); ok {
		if st.dead {
			return false
		}
		if x.pushed {
			x.pushed = false
			return true
		}
		x.fireHooks(st, in, hookKind(mode), true, args, r)
		setRes(packResults(r))
		return false
	}

	fc := x.W.ContractFor(callee)
	verified := callee.Pkg != nil && x.P.Verified[callee.Pkg.Pkg.Path()] && len(callee.Blocks) > 0
	isClosureHere := callee.Parent() != nil && len(fv.Bindings) == len(callee.FreeVars) && (len(callee.FreeVars) == 0 || fv.Bindings != nil)

	useContract := fc != nil && !fc.Inline && (fc.Trusted || len(fc.Ensures) > 0 || len(fc.Requires) > 0 || fc.Pure || !verified || hasLoops(callee))
	if useContract {
		name := x.P.ShortName(callee)
		if !verified {
			name = full
		}
		x.ByContract[name] = true
		res := x.applyContract(st, in, fc, callee, name, c, args, results)
		x.fireHooks(st, in, hookKind(mode), true, args, res)
		setRes(packResults(res))
		return false
	}

	if verified && fr.depth < maxInlineDepth && (!hasLoops(callee) || (fc != nil && fc.Inline)) && (callee.Parent() == nil || isClosureHere) && !x.onStack(st, callee) {
		// inline
		x.Inlined[x.P.ShortName(callee)] = true
		nf := &Frame{fn: callee, vals: map[ssa.Value]SymVal{}, locals: map[*ssa.Alloc]Term{}, parent: fr,
			blk: callee.Blocks[0], depth: fr.depth + 1, retTo: in, free: fv.Bindings}
		if mode == "deferred" {
			nf.retKind = 1
		}
		for k, p := range callee.Params {
			if k < len(args) {
				nf.vals[p] = args[k]
			}
		}
		nf.params = args
		st.fr = nf
		return true
	}

	// abstract: havoc the callee's write set, fresh results
	for _, a := range args {
		x.escape(st, a)
	}
	name := full
	{
		nt := x.D.Fresh("top", SInt)
		st.Assume(Ge(nt, st.top))
		st.top = nt
	}
	if verified {
		name = x.P.ShortName(callee)
		for k := range x.W.fnWrites(x, callee) {
			if _, ok := x.keySort(k); ok {
				x.havocKey(st, k)
			}
		}
	}
	x.Abstracted[name] = true
	res := x.freshResults(st, results, "call_"+callee.Name())
	x.fireHooks(st, in, hookKind(mode), true, args, res)
	setRes(packResults(res))
	return false
}

// advanceTop: the callee may allocate, so the allocation frontier moves to an unknown later point.
func (x *Exec) advanceTop(st *State) {
	nt := x.D.Fresh("top", SInt)
	st.Assume(Ge(nt, st.top))
	st.top = nt
}

func (x *Exec) onStack(st *State, fn *ssa.Function) bool {
	for f := st.fr; f != nil; f = f.parent {
		if f.fn == fn && f != st.fr {
			return true
		}
		if f.fn == fn && f.parent != nil {
			return true
		}
	}
	return false
}

func hookKind(mode string) string {
	switch mode {
	case "deferred":
		return "rundefer"
	}
	return "call"
}

func packResults(res []SymVal) SymVal {
	switch len(res) {
	case 0:
		return nil
	case 1:
		return res[0]
	}
	return Tuple(res)
}

func (x *Exec) freshResults(st *State, results *types.Tuple, name string) []SymVal {
	var out []SymVal
	for i := 0; i < results.Len(); i++ {
		out = append(out, x.freshVal(st, results.At(i).Type(), fmt.Sprintf("%s_r%d", name, i)))
	}
	return out
}

// havocObject forgets the content of the object ref points to (type t).
func (x *Exec) havocObject(st *State, ref Term, t types.Type) {
	if isStruct(t) {
		si := x.D.StructInfo(t)
		for i, f := range si.fields {
			k, _ := x.fieldHeapKey(t, i)
			nv := x.freshVal(st, f.typ, "hv_"+f.name)
			x.setHeap(st, k, Store(x.heap(st, k), ref, nv))
		}
		return
	}
	k := x.cellHeapKey(t)
	x.setHeap(st, k, Store(x.heap(st, k), ref, x.freshVal(st, t, "hv")))
}

// doReturn handles a Return instruction.
func (x *Exec) doReturn(st *State, i *ssa.Return) {
	fr := st.fr
	var res []SymVal
	for _, r := range i.Results {
		res = append(res, x.val(st, r))
	}
	if fr.parent == nil {
		if fr.onRet != nil {
			fr.onRet(st, res)
			st.dead = true
			return
		}
		x.returns++
		// a slice or map loaded from a guarded field must not escape the critical section by being returned
		for _, rv0 := range i.Results {
			switch types.Unalias(rv0.Type()).Underlying().(type) {
			case *types.Slice, *types.Map:
			default:
				continue
			}
			// every value the result may be derived from without copying: through local variables,
			// re-slicing, type changes and phis
			seen := map[ssa.Value]bool{}
			work := []ssa.Value{rv0}
			for len(work) > 0 && len(seen) < 200 {
				rv := work[len(work)-1]
				work = work[:len(work)-1]
				if rv == nil || seen[rv] {
					continue
				}
				seen[rv] = true
				switch u := rv.(type) {
				case *ssa.UnOp:
					if u.Op == token.MUL {
						if a, ok := u.X.(*ssa.Alloc); ok && a.Referrers() != nil {
							for _, ref := range *a.Referrers() {
								if sto, ok := ref.(*ssa.Store); ok && sto.Addr == ssa.Value(a) {
									work = append(work, sto.Val)
								}
							}
						}
					}
				case *ssa.Slice:
					work = append(work, u.X)
				case *ssa.ChangeType:
					work = append(work, u.X)
				case *ssa.Phi:
					work = append(work, u.Edges...)
				}
				if f := fieldOfLoaded(rv); f != "" {
					for _, m := range x.CS.FieldModes[f] {
						if m.Mode != "guarded_by" {
							continue
						}
						switch types.Unalias(rv.Type()).Underlying().(type) {
						case *types.Slice, *types.Map:
							o := x.oblig(fmt.Sprintf("guarded-escape[%s returned]", f), "mode", x.modeProps(m), i.Pos())
							x.Assert(st, o, False)
						}
					}
				}
			}
		}
		// vacuity guard: some return must be reachable (individual returns may be dead code
		// under the contract, e.g. an error branch that the precondition excludes)
		x.Cover(st, "some-return", i.Pos())
		x.fireHooks(st, i, "return", false, res, res)
		x.checkEnsures(st, i, res)
		st.dead = true
		return
	}
	// pop the inlined frame
	parent := fr.parent
	st.fr = parent
	switch fr.retKind {
	case 0:
		if call, ok := fr.retTo.(*ssa.Call); ok {
			parent.vals[call] = packResults(res)
		}
		x.fireHooks(st, fr.retTo, "call", true, fr.params, res)
		parent.idx++
	case 1:
		// deferred call finished: re-execute rundefers
	case 2:
		// Once.Do / spec-level call: continue after the call
		parent.idx++
	}
}

func (x *Exec) doDefer(st *State, i *ssa.Defer) {
	fr := st.fr
	d := deferred{call: &i.Call, instr: i}
	if i.Call.IsInvoke() {
		d.fnv = x.tval(st, i.Call.Value)
	} else if b, ok := i.Call.Value.(*ssa.Builtin); ok {
		d.fnv = b
	} else {
		d.fnv = x.val(st, i.Call.Value)
	}
	for _, a := range i.Call.Args {
		d.args = append(d.args, x.val(st, a))
	}
	x.fireHooks(st, i, "defer", false, d.args, nil)
	// a defer inside a loop is summarised at the loop head
	for _, li := range x.loopsOf(fr.fn) {
		if li.body[fr.blk] {
			return
		}
	}
	fr.defers = append(fr.defers, d)
}

func (x *Exec) doGo(st *State, i *ssa.Go) {
	var args []SymVal
	for _, a := range i.Call.Args {
		args = append(args, x.val(st, a))
	}
	x.fireHooks(st, i, "go", false, args, nil)
	for _, v := range args {
		x.escape(st, v)
	}
	if !i.Call.IsInvoke() {
		fv, calleeT, _ := x.resolveCallee(st, &i.Call)
		if fv == nil && calleeT.S != "" {
			// `go f(...)` with a nil function value panics
			if x.wantNoPanic {
				o := x.oblig("nopanic[go of a nil func "+x.srcOf(i)+"]", "nopanic", nil, i.Pos())
				x.Assert(st, o, Neq(calleeT, Zero))
			} else {
				st.Restrict(Neq(calleeT, Zero))
			}
		}
		if fv != nil {
			x.escape(st, fv)
			// the spawned function's precondition must hold now
			if fc := x.W.ContractFor(fv.Fn); fc != nil && len(fc.Requires) > 0 {
				env := x.calleeEnv(st, fv.Fn, args, nil)
				for k, c := range fc.Requires {
					o := x.oblig(fmt.Sprintf("go-pre[%s#%d %s]", x.P.ShortName(fv.Fn), k+1, c.TagStr()), "callpre", c.Tags, i.Pos())
					o.Src = c.Text
					x.Assert(st, o, x.evalBool(env, c))
				}
			}
			x.Spawned[x.P.ShortName(fv.Fn)]++
		}
	}
	if x.fc != nil && x.fc.Opts["handover"] != "" && st.fr.parent == nil {
		// hand-over protocol: the goroutine started here receives the locked mutex
		var keep []heldLock
		for _, h := range st.held {
			if h.Key != "obj" {
				keep = append(keep, h)
			}
		}
		st.held = keep
	}
	x.fireHooks(st, i, "go", true, args, nil)
}

func (x *Exec) calleeKey(callee *ssa.Function) string {
	if callee != nil && callee.Pkg != nil && x.P.Verified[callee.Pkg.Pkg.Path()] {
		return x.P.ShortName(callee)
	}
	return ""
}

// calleeEnv builds the evaluation environment of a callee's contract at a call site.
func (x *Exec) calleeEnv(st *State, callee *ssa.Function, args []SymVal, res []SymVal) *Env {
	env := &Env{x: x, st: st, old: st, binds: map[string]Bound{}, pkg: x.pkgPath()}
	if callee != nil {
		if callee.Pkg != nil && x.P.Verified[callee.Pkg.Pkg.Path()] {
			env.pkg = callee.Pkg.Pkg.Path()
		}
		for k, p := range callee.Params {
			if k < len(args) {
				env.binds[p.Name()] = Bound{V: args[k], T: p.Type()}
			}
		}
		// renamed parameters: the contract's names (baseline) are bound to the same arguments
		if bf := loadBaseline().Funcs[x.calleeKey(callee)]; bf != nil && len(bf.Params) == len(callee.Params) {
			for k, old := range bf.Params {
				if _, taken := env.binds[old]; !taken && k < len(args) {
					if p := x.W.paramAlias(callee, old); p == callee.Params[k] {
						env.binds[old] = Bound{V: args[k], T: p.Type()}
					}
				}
			}
		}
		if res != nil {
			rs := callee.Signature.Results()
			for k := 0; k < rs.Len() && k < len(res); k++ {
				if n := rs.At(k).Name(); n != "" && n != "_" {
					env.binds[n] = Bound{V: res[k], T: rs.At(k).Type()}
				}
				env.binds[fmt.Sprintf("result%d", k)] = Bound{V: res[k], T: rs.At(k).Type()}
			}
			if rs.Len() >= 1 && len(res) >= 1 {
				env.binds["result"] = Bound{V: res[0], T: rs.At(0).Type()}
			}
		}
	}
	return env
}

// applyContract replaces a call by the callee's contract.
func (x *Exec) applyContract(st *State, in ssa.Instruction, fc *FuncContract, callee *ssa.Function, name string, c *ssa.CallCommon, args []SymVal, results *types.Tuple) []SymVal {
	var env *Env
	if callee != nil {
		env = x.calleeEnv(st, callee, args, nil)
	} else {
		env = &Env{x: x, st: st, old: st, binds: map[string]Bound{}, pkg: x.pkgPath()}
	}
	// positional names always available
	bindPos := func(e *Env, res []SymVal) {
		sigParams := c.Signature().Params()
		off := 0
		if c.IsInvoke() || c.Signature().Recv() != nil {
			if len(args) > 0 {
				var rt types.Type
				if c.IsInvoke() {
					rt = c.Value.Type()
				} else if len(c.Args) > 0 {
					rt = c.Args[0].Type()
				}
				e.binds["recv"] = Bound{V: args[0], T: rt}
				off = 1
			}
		}
		for k := off; k < len(args); k++ {
			var t types.Type
			if k-off < sigParams.Len() {
				t = sigParams.At(k - off).Type()
			}
			e.binds[fmt.Sprintf("arg%d", k-off)] = Bound{V: args[k], T: t}
		}
		for k, r := range res {
			e.binds[fmt.Sprintf("result%d", k)] = Bound{V: r, T: results.At(k).Type()}
		}
		if len(res) > 0 {
			e.binds["result"] = Bound{V: res[0], T: results.At(0).Type()}
		}
	}
	bindPos(env, nil)
	for k, cl := range fc.Requires {
		o := x.oblig(fmt.Sprintf("call-pre[%s#%d %s]@%s", name, k+1, cl.TagStr(), x.srcOf(in)), "callpre", cl.Tags, in.Pos())
		o.Src = cl.Text
		x.Assert(st, o, x.evalBool(env, cl))
	}
	// blocking effect of the callee
	x.effectOfCall(st, in, fc, name, env)
	// locks the callee may acquire: lock-order edges from everything held here
	if callee != nil && len(st.held) > 0 {
		for l := range x.W.fnLocks(callee, map[*ssa.Function]bool{}) {
			for _, h := range st.held {
				_, hn := x.monitorFor(h.Key)
				x.W.addLockEdge(hn, l, x.name+" calls "+name+" @"+x.P.PosStr(in.Pos()))
				if hn == l {
					o := x.oblig("lock-reentry["+l+" via "+name+"]@"+x.srcOf(in), "lockorder", nil, in.Pos())
					x.Assert(st, o, False)
				}
			}
		}
	}
	old := st.clone()
	for _, a := range args {
		if !fc.Pure {
			x.escape(st, a)
		}
	}
	if !fc.Pure {
		// the callee may allocate: the frontier advances first, so that results and the values it
		// stores into the heaps it writes may be objects it allocated
		nt := x.D.Fresh("top", SInt)
		st.Assume(Ge(nt, st.top))
		st.top = nt
	}
	// frame
	if callee != nil {
		for k := range x.W.fnWrites(x, callee) {
			if _, ok := x.keySort(k); ok {
				x.havocKey(st, k)
			}
		}
	}
	for _, k := range fc.Modifies {
		if _, ok := x.keySort(k); ok {
			x.havocKey(st, k)
		}
	}
	var res []SymVal
	if fc.Pure {
		// result is an uninterpreted function of the arguments
		for i := 0; i < results.Len(); i++ {
			fname := fmt.Sprintf("pure_%s_%d", mangle(name), i)
			named := false
			if i < len(fc.PureNames) && fc.PureNames[i] != "_" {
				for _, sf := range x.CS.SpecFuns {
					if sf.Name == fc.PureNames[i] {
						x.W.declareSpecFun(x, sf)
						fname = "sf_" + sf.Name
						named = true
					}
				}
			}
			var sorts []string
			var ts []Term
			for k, a := range args {
				var at types.Type
				if callee != nil && k < len(callee.Params) {
					at = callee.Params[k].Type()
				}
				t := x.term(st, a, at)
				sorts = append(sorts, t.Sort)
				ts = append(ts, t)
			}
			rs := x.D.SortOf(results.At(i).Type())
			if !named {
				x.D.Fun(fname, sorts, rs)
			}
			r := app(rs, fname, ts...)
			st.Assume(x.D.WF(r, results.At(i).Type(), st.top, 0))
			res = append(res, r)
		}
	} else {
		res = x.freshResults(st, results, "r_"+mangle(name))
	}
	var env2 *Env
	if callee != nil {
		env2 = x.calleeEnv(st, callee, args, res)
	} else {
		env2 = &Env{x: x, st: st, binds: map[string]Bound{}, pkg: x.pkgPath()}
	}
	env2.old = old
	bindPos(env2, res)
	if len(fc.FreshFuns) > 0 {
		env2.funs, env2.funSorts = map[string]string{}, map[string]string{}
		for _, sf := range fc.FreshFuns {
			x.D.n++
			sym := fmt.Sprintf("ff_%s!%d", sf.Name, x.D.n)
			x.D.Fun(sym, sf.Params, sf.Ret)
			env2.funs[sf.Name] = sym
			env2.funSorts[sf.Name] = sf.Ret
		}
	}
	// the callee's ghost variables are unknown at the call site
	for _, g := range fc.Ghosts {
		sort := g.Sort
		if !isSMTSort(sort) && !strings.HasPrefix(sort, "S_") {
			// a ghost of Go type whose sort has not been resolved yet (the callee is verified later)
			sort = x.D.SortOf(x.resolveType(env2, g.Init, sort))
		}
		env2.binds[g.Name] = Bound{V: x.D.Fresh("cg_"+g.Name, sort)}
	}
	for _, cl := range fc.Ensures {
		st.Assume(x.evalBool(env2, cl))
	}
	return res
}

// ---------------------------------------------------------------- builtins

func (x *Exec) builtin(st *State, in ssa.Instruction, b *ssa.Builtin, c *ssa.CallCommon, args []SymVal) SymVal {
	argT := func(k int) types.Type {
		if k < len(c.Args) {
			return c.Args[k].Type()
		}
		return nil
	}
	switch b.Name() {
	case "ssa:deferstack":
		return Zero
	case "ssa:wrapnilchk":
		return args[0]
	case "len":
		v := x.term(st, args[0], argT(0))
		switch u := types.Unalias(argT(0)).Underlying().(type) {
		case *types.Slice:
			return SlLen(v)
		case *types.Basic:
			return app(SInt, "strlen", v)
		case *types.Map:
			hk, _, ck := x.mapHeapKeys(u)
			r := Ite(Eq(v, Zero), Zero, Select(x.heap(st, ck), v))
			st.Assume(Ge(r, Zero))
			// the zero case of "len is the number of keys": a map has length 0 iff it has no key
			ks := x.D.SortOf(u.Key())
			has := Select(x.heap(st, hk), v)
			x.W.qn++
			qk := mk(ks, fmt.Sprintf("q!lenk!%d", x.W.qn))
			st.Assume(mk(SBool, fmt.Sprintf("(forall ((%s %s)) (=> (and (not (= %s 0)) (select %s %s)) (> %s 0)))", qk.S, ks, v.S, has.S, qk.S, r.S)))
			sk := x.D.Fresh("somekey", ks)
			st.Assume(Implies(Gt(r, Zero), And(Neq(v, Zero), Select(has, sk))))
			return r
		case *types.Chan:
			r := x.D.Fresh("chlen", SInt)
			st.Assume(And(Ge(r, Zero), Le(r, Select(x.heap(st, kChCap), v))))
			return r
		case *types.Array:
			return IntLit(u.Len())
		case *types.Pointer:
			if a, ok := types.Unalias(u.Elem()).Underlying().(*types.Array); ok {
				return IntLit(a.Len())
			}
		}
		return x.D.Fresh("len", SInt)
	case "cap":
		v := x.term(st, args[0], argT(0))
		switch types.Unalias(argT(0)).Underlying().(type) {
		case *types.Slice:
			return SlCap(v)
		case *types.Chan:
			return Select(x.heap(st, kChCap), v)
		}
		return x.D.Fresh("cap", SInt)
	case "append":
		return x.doAppend(st, in, c, args)
	case "copy":
		st2, ok := types.Unalias(argT(0)).Underlying().(*types.Slice)
		dst := x.term(st, args[0], argT(0))
		n := x.D.Fresh("ncopy", SInt)
		if ok {
			k := x.elemHeapKey(st2.Elem())
			h := x.heap(st, k)
			nr := x.D.Fresh("row", ArrSort(SInt, x.D.SortOf(st2.Elem())))
			x.setHeap(st, k, Store(h, SlBase(dst), nr))
			x.note("copy() abstracted: destination elements havocked")
		}
		st.Assume(And(Ge(n, Zero), Le(n, SlLen(dst))))
		return n
	case "delete":
		mt := types.Unalias(argT(0)).Underlying().(*types.Map)
		hk, _, ck := x.mapHeapKeys(mt)
		m := x.term(st, args[0], argT(0))
		k := x.term(st, args[1], argT(1))
		x.mapFieldPolicy(st, c.Args[0], true, in)
		x.fireHooks(st, in, "delete", false, []SymVal{m, k}, nil)
		H, C := x.heap(st, hk), x.heap(st, ck)
		had := Select(Select(H, m), k)
		// delete on a nil map is a no-op
		x.setHeap(st, ck, Store(C, m, Sub(Select(C, m), Ite(And(Neq(m, Zero), had), IntLit(1), Zero))))
		x.setHeap(st, hk, Store(H, m, Store(Select(H, m), k, False)))
		return nil
	case "close":
		ch := x.term(st, args[0], argT(0))
		x.fireHooks(st, in, "close", false, args, nil)
		closed := Select(x.heap(st, kChClosed), ch)
		goal := And(Neq(ch, Zero), Not(closed))
		if x.wantNoPanic {
			o := x.oblig("nopanic[close "+x.srcOf(in)+"]", "nopanic", nil, in.Pos())
			x.Assert(st, o, goal)
		} else {
			st.Restrict(goal)
		}
		x.setHeap(st, kChClosed, Store(x.heap(st, kChClosed), ch, True))
		x.fireHooks(st, in, "close", true, args, nil)
		return nil
	case "panic":
		if x.wantNoPanic {
			o := x.oblig("nopanic[panic "+x.srcOf(in)+"]", "nopanic", nil, in.Pos())
			x.Assert(st, o, False)
		}
		st.dead = true
		return nil
	case "print", "println":
		return nil
	case "recover":
		return NilI
	case "min", "max":
		a := x.term(st, args[0], argT(0))
		for k := 1; k < len(args); k++ {
			bb := x.term(st, args[k], argT(k))
			if b.Name() == "min" {
				a = Ite(Lt(bb, a), bb, a)
			} else {
				a = Ite(Gt(bb, a), bb, a)
			}
		}
		return a
	}
	panic("unsupported builtin " + b.Name())
}

// doAppend models append(s, t...) precisely: in place iff len+k <= cap.
func (x *Exec) doAppend(st *State, in ssa.Instruction, c *ssa.CallCommon, args []SymVal) SymVal {
	stype := types.Unalias(c.Args[0].Type()).Underlying().(*types.Slice)
	s := x.term(st, args[0], c.Args[0].Type())
	var t Term
	if bt, ok := types.Unalias(c.Args[1].Type()).Underlying().(*types.Basic); ok && bt.Info()&types.IsString != 0 {
		// append([]byte, string...)
		x.note("append of string abstracted")
		r := x.freshVal(st, c.Args[0].Type(), "app")
		return r
	}
	t = x.term(st, args[1], c.Args[1].Type())
	x.escape(st, args[1])
	ek := x.elemHeapKey(stype.Elem())
	es := x.D.SortOf(stype.Elem())
	n := SlLen(t)
	newLen := Add(SlLen(s), n)
	one := strings.TrimSpace(n.S) == "1" || strings.HasSuffix(n.S, " 1 1))") // literal single element
	_ = one
	// fork: in place / reallocated
	s2 := x.fork(st, fmt.Sprintf("b%d:append-realloc", st.fr.blk.Index))
	{
		// reallocation: fresh backing row holding the old elements followed by the new ones
		q := s2
		q.Restrict(Gt(newLen, SlCap(s)))
		nb := x.newRef(q, "appbase")
		delete(q.fresh, nb.S)
		ncap := x.D.Fresh("ncap", SInt)
		q.Assume(Ge(ncap, newLen))
		res := x.D.Fresh("appres", SSlice)
		q.Assume(Eq(res, MkSlice(nb, Zero, newLen, ncap)))
		row := x.D.Fresh("row", ArrSort(SInt, es))
		h := x.heap(q, ek)
		oldRow := Select(h, SlBase(s))
		srcRow := Select(h, SlBase(t))
		q.Assume(mk(SBool, fmt.Sprintf("(forall ((j!q Int)) (! (=> (and (<= 0 j!q) (< j!q %s)) (= (select %s (sidx %s j!q)) (select %s (sidx %s j!q)))) :pattern ((sidx %s j!q)) :pattern ((sidx %s j!q))))",
			SlLen(s).S, row.S, res.S, oldRow.S, s.S, res.S, s.S)))
		q.Assume(mk(SBool, fmt.Sprintf("(forall ((j!q Int)) (! (=> (and (<= 0 j!q) (< j!q %s)) (= (select %s (sidx %s (+ %s j!q))) (select %s (sidx %s j!q)))) :pattern ((sidx %s j!q))))",
			n.S, row.S, res.S, SlLen(s).S, srcRow.S, t.S, t.S)))
		if lit, ok := litInt(n); ok && lit <= 4 {
			for j := int64(0); j < lit; j++ {
				q.Assume(Eq(Select(row, SlIdx(res, Add(SlLen(s), IntLit(j)))), Select(srcRow, SlIdx(t, IntLit(j)))))
			}
		}
		x.setHeap(q, ek, Store(h, nb, row))
		if call, ok := in.(*ssa.Call); ok {
			q.fr.vals[call] = res
		}
		x.fireHooks(q, in, "call", true, args, []SymVal{res})
		q.fr.idx++
		x.run(q)
	}
	st.path = append(st.path, fmt.Sprintf("b%d:append-inplace", st.fr.blk.Index))
	st.Restrict(Le(newLen, SlCap(s)))
	h := x.heap(st, ek)
	oldRow := Select(h, SlBase(s))
	srcRow := Select(h, SlBase(t))
	res := x.D.Fresh("appres", SSlice)
	st.Assume(Eq(res, MkSlice(SlBase(s), SlOff(s), newLen, SlCap(s))))
	if lit, ok := litInt(n); ok && lit <= 4 {
		row := oldRow
		for j := int64(0); j < lit; j++ {
			row = Store(row, SlIdx(res, Add(SlLen(s), IntLit(j))), Select(srcRow, SlIdx(t, IntLit(j))))
		}
		x.setHeap(st, ek, Store(h, SlBase(s), row))
	} else {
		row := x.D.Fresh("row", ArrSort(SInt, es))
		lo := Add(SlOff(s), SlLen(s))
		st.Assume(mk(SBool, fmt.Sprintf("(forall ((j!q Int)) (! (= (select %s j!q) (ite (and (<= %s j!q) (< j!q (+ %s %s))) (select %s (+ %s (- j!q %s))) (select %s j!q))) :pattern ((select %s j!q))))",
			row.S, lo.S, lo.S, n.S, srcRow.S, SlOff(t).S, lo.S, oldRow.S, row.S)))
		x.setHeap(st, ek, Store(h, SlBase(s), row))
	}
	return res
}

func litInt(t Term) (int64, bool) {
	var n int64
	if _, err := fmt.Sscanf(t.S, "%d", &n); err == nil && fmt.Sprint(n) == t.S {
		return n, true
	}
	// (slen (mkSl b o L c)) with literal L
	if strings.HasPrefix(t.S, "(slen (mkSl ") {
		fs := strings.Fields(strings.TrimSuffix(t.S, "))"))
		if len(fs) >= 6 {
			if _, err := fmt.Sscanf(fs[len(fs)-2], "%d", &n); err == nil {
				return n, true
			}
		}
	}
	return 0, false
}

// ---------------------------------------------------------------- channels

func (x *Exec) doSend(st *State, i *ssa.Send) {
	ch := x.tval(st, i.Chan)
	v := x.val(st, i.X)
	x.escape(st, v)
	vt := x.term(st, v, i.X.Type())
	x.blockingPoint(st, i, "send", x.sendText(i.Pos()), nil)
	x.fireHooks(st, i, "send", false, []SymVal{ch, vt}, nil)
	if x.wantNoPanic {
		o := x.oblig("nopanic[send on closed "+x.srcOf(i)+"]", "nopanic", nil, i.Pos())
		x.Assert(st, o, Not(Select(x.heap(st, kChClosed), ch)))
	}
	x.fireHooks(st, i, "send", true, []SymVal{ch, vt}, nil)
}

func (x *Exec) doRecv(st *State, i *ssa.UnOp) {
	fr := st.fr
	ch := x.tval(st, i.X)
	et := types.Unalias(i.X.Type()).Underlying().(*types.Chan).Elem()
	x.blockingPoint(st, i, "recv", x.recvText(i.Pos()), nil)
	v := x.freshVal(st, et, "recv")
	ok := x.D.Fresh("rok", SBool)
	st.Assume(Implies(Not(ok), And(Select(x.heap(st, kChClosed), ch), Eq(v, x.D.ZeroOf(et)))))
	x.markDone(st, ch)
	x.closeOnlyRecv(st, i.X, ch)
	x.fireHooks(st, i, "recv", true, []SymVal{ch}, []SymVal{v, ok})
	if i.CommaOk {
		fr.vals[i] = Tuple{v, ok}
	} else {
		fr.vals[i] = v
	}
}

// closeOnlyRecv: a receive from a channel that is never sent on returns only after close.
func (x *Exec) closeOnlyRecv(st *State, chv ssa.Value, ch Term) {
	if m := x.CS.Fields[fieldOfLoaded(chv)]; m != nil && m.Mode == "closeonly" {
		st.Assume(Select(x.heap(st, kChClosed), ch))
	}
}

// markDone records that a context's Done channel was observed closed.
func (x *Exec) markDone(st *State, ch Term) {
	if ctx, ok := st.doneOf[ch.S]; ok {
		x.setHeap(st, kCtxDone, Store(x.heap(st, kCtxDone), ctx, True))
	}
}

func (x *Exec) doSelect(st *State, i *ssa.Select) {
	fr := st.fr
	type caseInfo struct {
		ch  Term
		val Term
		txt string
	}
	var cases []caseInfo
	for _, s := range i.States {
		ci := caseInfo{ch: x.tval(st, s.Chan)}
		if s.Dir == types.SendOnly {
			ci.val = x.term(st, x.val(st, s.Send), s.Send.Type())
			ci.txt = x.sendText(s.Pos)
		} else {
			ci.txt = x.recvText(s.Pos)
		}
		cases = append(cases, ci)
	}
	x.fireHooks(st, i, "select", false, nil, nil)
	if i.Blocking {
		var chans []Term
		for _, c := range cases {
			chans = append(chans, c.ch)
		}
		x.blockingPoint(st, i, "select", "", chans)
	}
	nrecv := 0
	for _, s := range i.States {
		if s.Dir == types.RecvOnly {
			nrecv++
		}
	}
	mkTuple := func(q *State, idx int) {
		tu := Tuple{IntLit(int64(idx)), nil}
		rok := x.D.Fresh("rok", SBool)
		tu[1] = rok
		for k, s := range i.States {
			if s.Dir != types.RecvOnly {
				continue
			}
			et := types.Unalias(s.Chan.Type()).Underlying().(*types.Chan).Elem()
			if k == idx {
				v := x.freshVal(q, et, "recv")
				q.Assume(Implies(Not(rok), And(Select(x.heap(q, kChClosed), cases[k].ch), Eq(v, x.D.ZeroOf(et)))))
				tu = append(tu, v)
			} else {
				tu = append(tu, x.D.ZeroOf(et))
			}
		}
		q.fr.vals[i] = tu
	}
	run := func(q *State, idx int) {
		if idx < 0 {
			// default is taken only when no case is ready; a closed channel is always ready to receive
			for k, s := range i.States {
				if s.Dir == types.RecvOnly {
					q.Restrict(Not(Select(x.heap(q, kChClosed), cases[k].ch)))
				}
			}
		}
		mkTuple(q, idx)
		if idx < 0 {
			x.fireHooks(q, i, "default", false, nil, nil)
		}
		if idx >= 0 {
			s := i.States[idx]
			if s.Dir == types.RecvOnly {
				x.markDone(q, cases[idx].ch)
				x.closeOnlyRecv(q, s.Chan, cases[idx].ch)
				x.fireSelectHooks(q, i, idx, "recv", cases[idx].txt, cases[idx].ch, q.fr.vals[i].(Tuple))
			} else {
				x.escape(q, x.val(q, s.Send))
				x.fireSelectHooks(q, i, idx, "send", cases[idx].txt, cases[idx].ch, Tuple{cases[idx].val})
			}
		}
		q.fr.idx++
	}
	total := len(i.States)
	if !i.Blocking {
		total++
	}
	for k := 0; k < total; k++ {
		idx := k
		if k == len(i.States) {
			idx = -1
		}
		if k == total-1 {
			st.path = append(st.path, fmt.Sprintf("b%d:sel%d", fr.blk.Index, idx))
			run(st, idx)
			return
		}
		q := x.fork(st, fmt.Sprintf("b%d:sel%d", fr.blk.Index, idx))
		run(q, idx)
		x.run(q)
	}
}

// fireSelectHooks runs recv/send hooks for the chosen select case.
func (x *Exec) fireSelectHooks(st *State, i *ssa.Select, idx int, kind, txt string, ch Term, tu Tuple) {
	for _, h := range x.hooksAt[i] {
		if h.Kind != kind {
			continue
		}
		if set, byIdent := x.identHooks[h]; byIdent {
			if !set[x.valueIdentity(i.States[idx].Chan, 0)] {
				continue
			}
		} else if !anchorMatch(h.Anchor, txt) {
			continue
		}
		var val SymVal
		var vt types.Type
		s := i.States[idx]
		if kind == "recv" {
			// position of this case's value in the tuple
			pos := 2
			for k := 0; k < idx; k++ {
				if i.States[k].Dir == types.RecvOnly {
					pos++
				}
			}
			val = tu[pos]
			vt = types.Unalias(s.Chan.Type()).Underlying().(*types.Chan).Elem()
		} else {
			val = tu[0]
			vt = s.Send.Type()
		}
		x.runHook(st, h, i, true, []SymVal{ch}, []SymVal{val}, val, vt)
		x.runHook(st, h, i, false, []SymVal{ch}, []SymVal{val}, val, vt)
	}
}

// ---------------------------------------------------------------- hooks

func (x *Exec) fireHooks(st *State, in ssa.Instruction, kind string, after bool, args []SymVal, res []SymVal) {
	if _, ok := x.hooksAt[in]; !ok {
		return
	}
	for _, h := range x.hooksAt[in] {
		if h.Kind != kind {
			if !(h.Kind == "call" && kind == "rundefer") {
				continue
			}
		}
		var val SymVal
		var vt types.Type
		if kind == "recv" && len(res) > 0 {
			val = res[0]
			if u, ok := in.(*ssa.UnOp); ok {
				vt = types.Unalias(u.X.Type()).Underlying().(*types.Chan).Elem()
			}
		}
		if kind == "send" && len(args) > 1 {
			val = args[1]
			if s, ok := in.(*ssa.Send); ok {
				vt = s.X.Type()
			}
		}
		x.runHook(st, h, in, !after, args, res, val, vt)
	}
}

// runHook executes the before- or after-actions of one hook.
func (x *Exec) runHook(st *State, h *Hook, in ssa.Instruction, before bool, args, res []SymVal, val SymVal, vt types.Type) {
	env := x.envAt(st)
	var cc *ssa.CallCommon
	switch i := in.(type) {
	case *ssa.Call:
		cc = &i.Call
	case *ssa.Go:
		cc = &i.Call
	case *ssa.Defer:
		cc = &i.Call
	}
	if cc != nil {
		off := 0
		if cc.IsInvoke() {
			if len(args) > 0 {
				env.binds["recv"] = Bound{V: args[0], T: cc.Value.Type()}
			}
			off = 1
		} else if cc.Signature().Recv() != nil && len(args) > 0 {
			env.binds["recv"] = Bound{V: args[0], T: cc.Args[0].Type()}
			off = 1
		}
		ps := cc.Signature().Params()
		for k := off; k < len(args); k++ {
			var t types.Type
			if k-off < ps.Len() {
				t = ps.At(k - off).Type()
			}
			env.binds[fmt.Sprintf("arg%d", k-off)] = Bound{V: args[k], T: t}
		}
		rs := cc.Signature().Results()
		for k := 0; k < len(res) && k < rs.Len(); k++ {
			env.binds[fmt.Sprintf("res%d", k)] = Bound{V: res[k], T: rs.At(k).Type()}
		}
		if len(res) > 0 && rs.Len() > 0 {
			env.binds["res"] = Bound{V: res[0], T: rs.At(0).Type()}
		}
	} else if _, ok := in.(*ssa.Return); ok {
		rs := x.fn.Signature.Results()
		for k := 0; k < len(res) && k < rs.Len(); k++ {
			env.binds[fmt.Sprintf("res%d", k)] = Bound{V: res[k], T: rs.At(k).Type()}
		}
	} else if mc, ok := in.(*ssa.MakeChan); ok && len(res) > 0 {
		env.binds["res"] = Bound{V: res[0], T: mc.Type()}
	} else if mu, ok := in.(*ssa.MapUpdate); ok && len(args) >= 3 {
		mt := types.Unalias(mu.Map.Type()).Underlying().(*types.Map)
		env.binds["m"] = Bound{V: args[0], T: mu.Map.Type()}
		env.binds["key"] = Bound{V: args[1], T: mt.Key()}
		env.binds["val"] = Bound{V: args[2], T: mt.Elem()}
	}
	if h.Kind == "delete" && len(args) >= 2 {
		if ci, ok := in.(*ssa.Call); ok && len(ci.Call.Args) == 2 {
			mt := types.Unalias(ci.Call.Args[0].Type()).Underlying().(*types.Map)
			env.binds["m"] = Bound{V: args[0], T: ci.Call.Args[0].Type()}
			env.binds["key"] = Bound{V: args[1], T: mt.Key()}
		}
	}
	if val != nil {
		name := h.Bind
		if name == "" {
			name = "val"
		}
		env.binds[name] = Bound{V: val, T: vt}
	}
	if len(args) > 0 {
		if _, isCall := in.(ssa.CallInstruction); !isCall {
			env.binds["ch"] = Bound{V: args[0]}
		}
	}
	for k, a := range h.Actions {
		if a.After == before {
			continue
		}
		switch a.Kind {
		case "assert":
			nm := a.C.Name
			if nm == "" {
				nm = fmt.Sprintf("on-%s[%s]#%d", h.Kind, h.Anchor, k+1)
				if len(a.C.Tags) > 0 {
					nm = fmt.Sprintf("on-%s[%s]/%s#%d", h.Kind, h.Anchor, a.C.TagStr(), k+1)
				}
			}
			o := x.oblig(nm, "hook", a.C.Tags, in.Pos())
			o.Src = a.C.Text
			x.Assert(st, o, x.evalBool(env, a.C))
		case "assume":
			st.Assume(x.evalBool(env, a.C))
		case "set":
			if gs, isHeap := x.CS.GhostHeaps[a.Var]; isHeap {
				x.regHeap("G!"+a.Var, gs)
				v := x.evalTerm(env, a.C)
				if v.Sort != gs {
					panic(specErr{fmt.Sprintf("%s:%d: ghost heap %s has sort %s, assigned %s", a.C.File, a.C.Line, a.Var, gs, v.Sort)})
				}
				x.setHeap(st, "G!"+a.Var, v)
				continue
			}
			old, ok := st.ghost[a.Var]
			if !ok {
				panic(fmt.Sprintf("%s:%d: set of undeclared ghost %s", a.C.File, a.C.Line, a.Var))
			}
			v := x.evalTerm(env, a.C)
			if v.Sort != old.Sort {
				panic(fmt.Sprintf("%s:%d: ghost %s has sort %s, assigned %s", a.C.File, a.C.Line, a.Var, old.Sort, v.Sort))
			}
			n := x.D.Fresh("gh_"+a.Var, old.Sort)
			st.Assume(Eq(n, v))
			st.ghost[a.Var] = n
		}
	}
}

// ---------------------------------------------------------------- ensures

func (x *Exec) clauseName(kind string, k int, c *Clause) string {
	if len(c.Tags) > 0 {
		return fmt.Sprintf("%s%d[%s]", kind, k+1, c.TagStr())
	}
	return fmt.Sprintf("%s%d", kind, k+1)
}

func (x *Exec) checkEnsures(st *State, i *ssa.Return, res []SymVal) {
	if len(st.held) > 0 && (x.fc == nil || x.fc.Opts["returns-holding"] == "") {
		o := x.oblig("lockset-empty-at-return", "lockset", nil, i.Pos())
		x.Assert(st, o, False)
	}
	if x.fc == nil {
		return
	}
	env := x.envAt(st)
	env.paramsEntry = true
	rs := x.fn.Signature.Results()
	for k := 0; k < rs.Len() && k < len(res); k++ {
		if n := rs.At(k).Name(); n != "" && n != "_" {
			env.binds[n] = Bound{V: res[k], T: rs.At(k).Type()}
		}
		env.binds[fmt.Sprintf("result%d", k)] = Bound{V: res[k], T: rs.At(k).Type()}
	}
	if rs.Len() >= 1 {
		env.binds["result"] = Bound{V: res[0], T: rs.At(0).Type()}
	}
	for k, c := range x.fc.Ensures {
		o := x.oblig(x.clauseName("ensures", k, c), "ensures", c.Tags, i.Pos())
		o.PosStr = shortPath(c.File) + fmt.Sprintf(":%d", c.Line)
		o.Src = c.Text
		x.Assert(st, o, x.evalBool(env, c))
	}
}

var _ = token.NoPos

// implOf is one implementer of a package-closed interface method.
type implOf struct {
	dyn   types.Type    // dynamic type stored in the interface value (T or *T)
	deref types.Type    // non-nil: dyn is *T and the method is declared on T (the receiver is a copy of *ptr)
	fn    *ssa.Function // the declared method
}

// closedImpls lists the implementers of an interface call when the set is closed: the interface is a named
// type of a verified package and the method called is unexported (no type of another package can declare
// it). Types that embed the interface or an implementer (promoted methods) are not followed.
func (x *Exec) closedImpls(c *ssa.CallCommon) []implOf { return x.W.closedImpls(c) }

func (w *World) closedImpls(c *ssa.CallCommon) []implOf {
	if !c.IsInvoke() || c.Method.Exported() || c.Method.Pkg() == nil || !w.P.Verified[c.Method.Pkg().Path()] {
		return nil
	}
	it, ok := types.Unalias(c.Value.Type()).Underlying().(*types.Interface)
	if !ok {
		return nil
	}
	key := typeKey(c.Value.Type()) + "." + c.Method.Name()
	if r, ok := w.implCache[key]; ok {
		return r
	}
	var out []implOf
	scope := c.Method.Pkg().Scope()
	names := scope.Names()
	sort.Strings(names)
	for _, n := range names {
		tn, ok := scope.Lookup(n).(*types.TypeName)
		if !ok || tn.IsAlias() {
			continue
		}
		T := tn.Type()
		if _, isI := T.Underlying().(*types.Interface); isI {
			continue
		}
		for _, dyn := range []types.Type{T, types.NewPointer(T)} {
			if !types.Implements(dyn, it) {
				continue
			}
			sel := types.NewMethodSet(dyn).Lookup(c.Method.Pkg(), c.Method.Name())
			if sel == nil || len(sel.Index()) != 1 {
				continue
			}
			fo, ok := sel.Obj().(*types.Func)
			if !ok {
				continue
			}
			fn := w.P.SSA.FuncValue(fo)
			if fn == nil || len(fn.Blocks) == 0 {
				continue
			}
			im := implOf{dyn: dyn, fn: fn}
			rt := fo.Type().(*types.Signature).Recv().Type()
			if _, dynPtr := dyn.(*types.Pointer); dynPtr {
				if _, recvPtr := types.Unalias(rt).(*types.Pointer); !recvPtr {
					im.deref = T
				}
			}
			out = append(out, im)
		}
	}
	if w.implCache == nil {
		w.implCache = map[string][]implOf{}
	}
	w.implCache[key] = out
	return out
}
