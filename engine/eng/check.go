package eng

import (
	"encoding/json"
	"fmt"
	"os"
	"path/filepath"
	"sort"
	"strconv"
	"strings"
	"time"
)

type KnownFinding struct {
	Property   string `json:"property"`
	Obligation string `json:"obligation"`
	Status     string `json:"status"` // open | fixed
	Commit     string `json:"commit,omitempty"`
	WhatFails  string `json:"what_fails"`
	Witness    string `json:"witness,omitempty"`
	Defect     string `json:"defect,omitempty"`
}

func loadKnownFindings() []KnownFinding {
	var out struct {
		Findings []KnownFinding `json:"findings"`
	}
	b, err := os.ReadFile(filepath.Join(VerifDir, "known_findings.json"))
	if err != nil {
		return nil
	}
	if err := json.Unmarshal(b, &out); err != nil {
		fmt.Fprintln(os.Stderr, "known_findings.json:", err)
		return nil
	}
	return out.Findings
}

// propertyPlan describes what a property check verifies.
type propertyPlan struct {
	GenToolsOnly bool // only the freshly built tools are needed, not the regenerated overlay
	GenServers   bool // the regenerated packages are loaded next to Pkgs for the server-registration scan only
	Gen          bool // needs regenerated code (plugin run on the repository's descriptors)
	ID           string
	Level        string // proof | other
	Pkgs         []string
	Extra        func(s *Session, tier string) []*FuncResult // structural / generated-code checks
	Explain      string
	SweepsAll    bool // the property is decided by executing every function of the package (ownership sweep)
}

func hasProp(props []string, id string) bool {
	for _, p := range props {
		if p == id {
			return true
		}
	}
	return false
}

func tagsHaveProp(tags []string, id string) bool {
	for _, t := range tags {
		if t == id || strings.HasPrefix(t, id+".") {
			return true
		}
	}
	return false
}

func cmdCheck(args []string) int {
	if len(args) < 1 {
		fmt.Fprintln(os.Stderr, "usage: gvc check <property> [--tier quick|thorough]")
		return 2
	}
	id := args[0]
	tier := envOr("VERIF_TIER", "quick")
	for i := 1; i < len(args); i++ {
		if args[i] == "--tier" && i+1 < len(args) {
			tier = args[i+1]
			i++
		}
	}
	seed, _ := strconv.Atoi(envOr("VERIF_SEED", "0"))
	return RunCheck(id, tier, seed)
}

// curGen is the regenerated-code context of the running check (nil for most properties).
var curGen *genCtx

type sample struct {
	Obligation string `json:"obligation"`
	Kind       string `json:"kind"`
	Source     string `json:"source,omitempty"`
	Where      string `json:"where,omitempty"`
	VCs        int    `json:"vcs"`
	Status     string `json:"status"`
	Backend    string `json:"backend"`
	Millis     int64  `json:"ms"`
	MaxVCMs    int64  `json:"max_vc_ms"`
}

func RunCheck(id, tier string, seed int) int {
	v, _ := runCheck(id, tier, seed, nil, false)
	if v < 0 {
		return 2
	}
	if v > 0 {
		return 1
	}
	return 0
}

// runCheck runs the check of one property. With an overlay (self-test mutants) it
// prints nothing and writes no evidence; it returns the number of violations and the
// names of the failed obligations.
func runCheck(id, tier string, seed int, overlay map[string][]byte, quiet bool) (int, []string) {
	t0 := time.Now()
	plan, ok := plans[id]
	if !ok {
		fmt.Fprintf(os.Stderr, "no check is built for %s (see MANIFEST.json not_applicable)\n", id)
		return -1, nil
	}
	printf := func(format string, a ...interface{}) {
		if !quiet {
			fmt.Printf(format, a...)
		}
	}
	// CPU-time budgets per solver run (smt.go); the slowest obligation of the unchanged tree needs
	// about 2.5 s, so the quick budget leaves a factor of ten for loaded machines
	timeout := 25000
	if tier == "thorough" {
		timeout = 90000
	}
	var gen *genCtx
	pkgs := plan.Pkgs
	var extraSpecs []string
	if plan.Gen {
		var gerr error
		gen, gerr = PrepareGen(id)
		defer gen.Close()
		if gerr == nil && gen != nil && plan.GenServers {
			if overlay == nil {
				overlay = map[string][]byte{}
			}
			for k, v := range gen.Overlay {
				if _, mutated := overlay[k]; !mutated {
					overlay[k] = v
				}
			}
			pkgs = append(append([]string{}, pkgs...), gen.Pkgs...)
		} else if gerr == nil && gen != nil && !plan.GenToolsOnly {
			if overlay == nil {
				overlay = map[string][]byte{}
			}
			for k, v := range gen.Overlay {
				if _, mutated := overlay[k]; !mutated {
					overlay[k] = v
				}
			}
			if len(gen.Pkgs) > 0 && len(pkgs) == 0 {
				pkgs = gen.Pkgs
			}
			if gen.Spec != "" {
				extraSpecs = append(extraSpecs, gen.Spec)
			}
		}
	}
	var thoroughRuns []*harnessResult
	curGen = gen
	ExtraSpecFiles = extraSpecs
	s, err := NewSession(pkgs, timeout, seed, tier == "thorough", overlay)
	ExtraSpecFiles = nil
	replayDir := filepath.Join(VerifDir, "out", "replay", id)
	if quiet {
		replayDir = filepath.Join(os.TempDir(), "gvc-selftest-replay", id)
	}
	if !quiet {
		os.RemoveAll(replayDir) // replay files describe this run only
	}
	os.MkdirAll(replayDir, 0o755)
	os.MkdirAll(filepath.Join(VerifDir, "evidence"), 0o755)
	if err != nil {
		// the tree does not load (type error) or a contract file does not parse
		f := filepath.Join(replayDir, "load-error.json")
		writeJSON(f, map[string]interface{}{"property": id, "obligation": "load", "error": err.Error()})
		printf("VIOLATION property=%s replay=%s no-failing-input-found\n", id, f)
		if !quiet {
			writeEvidence(id, tier, seed, "other", map[string]interface{}{"explanation": "the working tree or a contract file failed to load: " + err.Error(), "obligations": 0, "discharged": 0}, nil, time.Since(t0).Seconds(), 1)
		}
		return 1, []string{"load: " + err.Error()}
	}
	defer s.Close()

	// functions under contract for this property
	var names []string
	for _, n := range s.CS.Order {
		fc := s.CS.Funcs[n]
		if fc.Trusted {
			continue
		}
		if hasProp(fc.Props, id) || hasProp(fc.NoPanicProps, id) {
			names = append(names, n)
		}
	}
	results := s.VerifyNamed(names)
	results = append(results, s.VerifyLemmas(func(l *Lemma) bool { return tagsHaveProp(l.Tags, id) })...)
	if gen != nil && !plan.GenToolsOnly && !plan.GenServers {
		results = append(results, gen.Results...)
	}
	if plan.Extra != nil {
		results = append(results, plan.Extra(s, tier)...)
	}
	if tier == "thorough" && !quiet && overlay == nil || (tier == "thorough" && !quiet && plan.Gen) {
		if len(thoroughHarnesses[id]) > 0 {
			fr, runs := runThoroughHarnesses(id)
			results = append(results, fr)
			thoroughRuns = runs
		}
	}
	SolveAll(s.R, results)

	known := loadKnownFindings()
	// A finding is keyed by its obligation: function, kind of obligation, callee and lock, and the source
	// text of the call site after '@'. The text changes when a maintainer renames a local, so a name
	// that differs only after '@' still matches - provided the function has exactly ONE failed
	// obligation with that key on this run (a second site of the same kind is a different violation
	// and both are then reported).
	siteKey := func(name string) string {
		if i := strings.Index(name, "]@"); i >= 0 {
			return name[:i+1]
		}
		return name
	}
	failedPerKey := map[string]int{}
	for _, fr := range results {
		for _, o := range fr.Obligs {
			if o.Status != "discharged" && o.Kind != "cover" {
				failedPerKey[siteKey(o.Name)]++
			}
		}
	}
	isKnown := func(name string) *KnownFinding {
		for i := range known {
			k := &known[i]
			if k.Status != "open" {
				continue
			}
			if k.Obligation == name {
				return k
			}
			if kk := siteKey(k.Obligation); kk != k.Obligation && kk == siteKey(name) && failedPerKey[kk] == 1 {
				return k
			}
		}
		return nil
	}

	var (
		nObl, nDis, nVC, nCover, nUndec                           int
		violations                                                int
		samples                                                   []sample
		byBackend                                                 = map[string]int{}
		underContract, inlined, byContract, abstracted, userCalls []string
		notes                                                     []string
		kfLines                                                   []string
		failedNames                                               []string
		foreign                                                   []string
		slow                                                      []sample
		standins                                                  []map[string]interface{}
	)
	seenStr := map[string]bool{}
	addU := func(dst *[]string, xs []string) {
		for _, x := range xs {
			if !seenStr[fmt.Sprintf("%p", dst)+x] {
				seenStr[fmt.Sprintf("%p", dst)+x] = true
				*dst = append(*dst, x)
			}
		}
	}
	report := func(o *Oblig, fr *FuncResult, reason string) {
		if k := isKnown(o.Name); k != nil {
			kfLines = append(kfLines, fmt.Sprintf("KNOWN-FINDING: property=%s %s: %s", k.Property, o.Name, k.WhatFails))
			return
		}
		violations++
		failedNames = append(failedNames, o.Name)
		f := filepath.Join(replayDir, mangle(o.Name)+".json")
		rep := map[string]interface{}{"property": id, "obligation": o.Name, "kind": o.Kind, "status": o.Status, "reason": reason,
			"where": o.PosStr, "contract_clause": o.Src, "detail": o.Detail, "tags": o.Tags}
		suffix := " no-failing-input-found"
		for _, vc := range o.VCs {
			if vc.Res != nil && vc.Res.Status != "unsat" && o.Expect == "" {
				rep["path"] = vc.Path
				rep["solver"] = vc.Res.Solver
				rep["solver_status"] = vc.Res.Status
				rep["solver_output"] = truncate(vc.Res.Output, 4000)
				if vc.Model != "" {
					rep["model"] = truncate(vc.Model, 20000)
				}
				smt := filepath.Join(replayDir, mangle(o.Name)+".smt2")
				os.WriteFile(smt, []byte(DumpVC(fr, vc)), 0o644)
				rep["smt_query"] = smt
				if quiet {
					break
				}
				if rp := tryReplay(s, id, o, fr, vc, replayDir); rp != nil {
					rep["replay"] = rp
					if rp.Reproduced {
						suffix = ""
					}
				}
				break
			}
		}
		if o.Kind == "bounded" {
			// a bounded witness search of the thorough tier failed on the real code: the failing input is in the detail
			suffix = ""
			rep["failing_input"] = o.Detail
			for _, hr := range thoroughRuns {
				if strings.Contains(o.Name, "/"+hr.Harness+"[") {
					rep["witness_search"] = hr
				}
			}
		}
		if suffix != "" && !quiet && o.Kind != "cover" {
			// bounded witness search on the real code for the function's family
			if h := harnessFor(o.Func); h != nil {
				hr := runHarness(h, o.Func, overlay)
				rep["witness_search"] = hr
				if hr.Reproduced {
					suffix = ""
					rep["failing_input"] = hr.Failure
				}
			}
		}
		writeJSON(f, rep)
		printf("VIOLATION property=%s replay=%s%s\n", id, f, suffix)
	}

	for _, fr := range results {
		if fr.Trusted {
			continue
		}
		if fr.HasContract || strings.HasPrefix(fr.Name, "lemma ") {
			underContract = append(underContract, fr.Name)
		}
		addU(&inlined, fr.Inlined)
		addU(&byContract, fr.ByContract)
		addU(&abstracted, fr.Abstracted)
		addU(&userCalls, fr.UserCalls)
		for _, n := range fr.Notes {
			addU(&notes, []string{fr.Name + ": " + n})
		}
		// Contract drift: a name, an anchor or the whole function a contract refers to is gone, so the
		// obligations of this function cannot be generated (or were generated with hooks missing)
		// and nothing the solver says about them is reliable. The function is outside the verifier's
		// reach; where a bounded witness search exists for its family it stands in (labelled bounded).
		var driftWhy []string
		if fr.Err != "" {
			driftWhy = append(driftWhy, fr.Err)
		}
		for _, o := range fr.Obligs {
			if o.Kind == "drift" && o.Status != "discharged" {
				driftWhy = append(driftWhy, strings.TrimPrefix(o.Name, fr.Name+"/"))
			}
		}
		if len(driftWhy) > 0 {
			if h := harnessFor(fr.Name); h != nil {
				hr := runHarness(h, fr.Name, overlay)
				if hr.Reproduced || (hr.Passed && h.StandIn && hasProp(h.Props, id)) {
					f := filepath.Join(replayDir, mangle(fr.Name)+"_bounded_standin.json")
					rep := map[string]interface{}{"property": id, "obligation": fr.Name + "/bounded-standin[" + h.Name + "]", "contract_drift": driftWhy,
						"reason": "the contract of this function no longer matches the code, so its obligations could not be generated; the bounded witness search " + h.Name + " on the real code stands in for them",
						"witness_search": hr}
					if hr.Reproduced {
						violations++
						rep["failing_input"] = hr.Failure
						writeJSON(f, rep)
						printf("VIOLATION property=%s replay=%s\n", id, f)
						failedNames = append(failedNames, fr.Name+"/bounded-standin["+h.Name+"]: "+truncate(hr.Failure, 300))
					} else {
						writeJSON(f, rep)
						printf("UNDECIDED property=%s function=%s contract drift (%s); bounded stand-in %s passed %s scenarios on the real code - not a proof\n", id, fr.Name, truncate(strings.Join(driftWhy, "; "), 160), h.Name, hr.Scenarios)
						standins = append(standins, map[string]interface{}{"function": fr.Name, "contract_drift": driftWhy, "harness": h.Name, "bound": h.Bound, "scenarios": hr.Scenarios, "result": "passed", "label": "bounded - not counted as proved"})
					}
					continue
				}
				if hr.Passed && h.StandIn {
					driftWhy = append(driftWhy, "witness search "+h.Name+" found no failing input ("+hr.Scenarios+" scenarios), but its reference model does not cover "+id)
				} else if hr.Passed {
					driftWhy = append(driftWhy, "witness search "+h.Name+" found no failing input ("+hr.Scenarios+" scenarios), but a scripted concurrency harness does not stand in for a proof")
				} else {
					// the search itself could not be built or run on this tree: report the drift
					driftWhy = append(driftWhy, "witness search "+h.Name+" could not run: "+truncate(hr.Output, 400))
				}
			}
		}
		if fr.Err != "" && plan.SweepsAll && strings.Contains(fr.Err, "function not found") && !contractMentions(s.CS.Funcs[fr.Name], id) {
			// The property is decided by executing EVERY function of the package against the field-mode
			// table, with or without contract, and this function's contract states nothing of its own for
			// the property: whatever code it held now lives in functions the sweep executes anyway.
			printf("NOTE property=%s function=%s is no longer in the tree; its contract states nothing tagged %s and the sweep over all functions of the package covers the code wherever it moved\n", id, fr.Name, id)
			addU(&notes, []string{fr.Name + ": function under contract no longer exists; covered by the whole-package sweep"})
			continue
		}
		if fr.Err != "" {
			violations++
			f := filepath.Join(replayDir, mangle(fr.Name)+"_error.json")
			writeJSON(f, map[string]interface{}{"property": id, "obligation": fr.Name + "/generate", "error": fr.Err,
				"reason": "the obligations of this function could not be generated from the working tree (contract drift or unsupported code); they were discharged on the unchanged tree"})
			printf("VIOLATION property=%s replay=%s no-failing-input-found\n", id, f)
			failedNames = append(failedNames, fr.Name+"/generate: "+truncate(fr.Err, 200))
			continue
		}
		for _, o := range fr.Obligs {
			// Every obligation generated for a function verified for this property counts:
			// later obligations of the same path are proved assuming the earlier ones, so a
			// failed supporting obligation (whatever clause it is tagged with) invalidates them.
			mine := hasProp(o.Props, id) || o.Kind == "cover" || o.Kind == "drift"
			if !mine && o.Status == "discharged" {
				continue
			}
			if !mine {
				if k := isKnown(o.Name); k != nil {
					// a listed finding of another property, in a function this check also verifies
					foreign = append(foreign, fmt.Sprintf("KNOWN-FINDING: property=%s %s: %s", k.Property, o.Name, k.WhatFails))
					continue
				}
			}
			if o.Kind == "cover" {
				nCover++
				if o.Status != "discharged" {
					report(o, fr, "vacuity guard: the path condition reaching this point is unsatisfiable (contradictory requires/invariant)")
				}
				continue
			}
			nObl++
			nVC += len(o.VCs)
			byBackend[o.Backend]++
			sm := sample{Obligation: o.Name, Kind: o.Kind, Source: o.Src, Where: o.PosStr, VCs: len(o.VCs), Status: o.Status, Backend: o.Backend, Millis: o.Millis}
			for _, vc := range o.VCs {
				if vc.Res != nil && vc.Res.Millis > sm.MaxVCMs {
					sm.MaxVCMs = vc.Res.Millis
				}
			}
			slow = append(slow, sm)
			switch o.Status {
			case "discharged":
				nDis++
				if len(samples) < 12 && (o.Kind == "ensures" || o.Kind == "lemma" || o.Kind == "invariant-pres" || o.Kind == "hook" || len(samples) < 4) {
					samples = append(samples, sm)
				}
			case "failed":
				report(o, fr, "the verifier refuted this obligation on the current tree")
				samples = append(samples, sm)
			default:
				nUndec++
				report(o, fr, "no solver could discharge this obligation on the current tree ("+o.Detail+"); it is discharged on the unchanged tree")
				samples = append(samples, sm)
			}
		}
	}
	for _, l := range kfLines {
		printf("%s\n", l)
	}
	for _, l := range foreign {
		printf("%s\n", l)
	}
	sort.Slice(slow, func(i, j int) bool { return slow[i].MaxVCMs > slow[j].MaxVCMs })
	if len(slow) > 5 {
		slow = slow[:5]
	}
	if len(samples) == 0 && len(slow) > 0 {
		samples = slow[:1]
	}

	// assumptions: mechanical scan + standing trusted base
	assumptions := append([]string{}, standingAssumptions...)
	for _, a := range s.CS.Assumptions {
		assumptions = append(assumptions, a)
	}
	for _, a := range abstracted {
		assumptions = append(assumptions, "callee without contract, results havocked, assumed not to modify gorums state beyond its computed write set: "+a)
	}
	for _, a := range userCalls {
		assumptions = append(assumptions, "user-supplied function value treated as uninterpreted (terminates, does not panic, does not mutate its arguments' gorums state): "+a)
	}
	for _, n := range notes {
		assumptions = append(assumptions, "abstraction: "+n)
	}

	level := plan.Level
	if len(kfLines) > 0 || nObl == 0 {
		level = "other"
	}
	cov := map[string]interface{}{
		"obligations":             nObl,
		"discharged":              nDis,
		"undecided":               nUndec,
		"verification_conditions": nVC,
		"covers_checked":          nCover,
		"known_findings_open":     len(kfLines),
		"known_findings_of_other_properties_seen": len(foreign),
		"by_backend":               byBackend,
		"solver_wall_ms":           s.R.TotalMs,
		"solver_queries":           s.R.Queries,
		"load_s":                   s.LoadSecs,
		"checker_cmd":              fmt.Sprintf("/verif/bin/gvc check %s --tier %s", id, tier),
		"trusted_base":             trustedBase,
		"functions_under_contract": underContract,
		"callees_inlined":          inlined,
		"callees_by_contract":      byContract,
		"callees_abstracted":       abstracted,
		"samples":                  samples,
		"slowest":                  slow,
		"explanation":              plan.Explain,
		"failed_obligations":       failedNames,
		"bounded_standins":         standins,
		"bounded_witness_searches": thoroughRuns,
		"solvers":                  s.R.BySolver,
	}
	if nObl == 0 {
		violations++
		printf("VIOLATION property=%s replay=%s no-failing-input-found\n", id, filepath.Join(replayDir, "no-obligations.json"))
		writeJSON(filepath.Join(replayDir, "no-obligations.json"), map[string]interface{}{"property": id, "obligation": "vacuity", "reason": "no obligation was generated for this property"})
	}
	if quiet {
		return violations, failedNames
	}
	writeEvidence(id, tier, seed, level, cov, assumptions, time.Since(t0).Seconds(), violations)
	fmt.Printf("%s %s: %d obligations, %d discharged, %d undecided, %d known findings, %d violations, %d VCs, %d covers, %.1fs\n",
		id, tier, nObl, nDis, nUndec, len(kfLines), violations, nVC, nCover, time.Since(t0).Seconds())
	return violations, failedNames
}

func truncate(s string, n int) string {
	if len(s) > n {
		return s[:n] + "…"
	}
	return s
}

func writeJSON(path string, v interface{}) {
	b, _ := json.MarshalIndent(v, "", " ")
	os.WriteFile(path, b, 0o644)
}

func writeEvidence(id, tier string, seed int, level string, cov map[string]interface{}, assumptions []string, wall float64, violations int) {
	if tier != "quick" && tier != "thorough" {
		tier = "quick"
	}
	ev := map[string]interface{}{
		"property_id": id, "tier": tier, "seed": seed, "level": level, "coverage": cov,
		"assumptions": assumptions, "wall_s": wall, "violations": violations,
	}
	writeJSON(filepath.Join(VerifDir, "evidence", id+".json"), ev)
}

var trustedBase = []string{
	"go/packages + go/types + go/ssa (x/tools v0.29.0, NaiveForm) translate /repo's working tree faithfully",
	"gvc's instruction semantics (DESIGN.md sections 2.3 and 2.4) and its soundness argument for monitors, credits and ownership modes",
	"z3 5.1.0, z3 4.8.12, cvc5 1.0.3",
}

var standingAssumptions = []string{
	"integers are mathematical (machine overflow not modelled unless an overflow obligation is generated)",
	"interleavings of other goroutines are not enumerated: they are represented by monitor invariants, rely clauses and ownership modes",
	"Go channels are FIFO; a buffered send with free capacity does not block; sync.Mutex/RWMutex/Once behave as documented",
	"termination is proved only for loops carrying a decreases clause",
}

type replayResult struct {
	Harness    string `json:"harness"`
	Test       string `json:"generated_test,omitempty"`
	Output     string `json:"output,omitempty"`
	Reproduced bool   `json:"reproduced"`
	Command    string `json:"command,omitempty"`
}

func cmdReplay(args []string) int {
	if len(args) < 1 {
		fmt.Fprintln(os.Stderr, "usage: gvc replay <file>")
		return 2
	}
	b, err := os.ReadFile(args[0])
	if err != nil {
		fmt.Fprintln(os.Stderr, err)
		return 2
	}
	var rep map[string]interface{}
	if err := json.Unmarshal(b, &rep); err != nil {
		fmt.Fprintln(os.Stderr, err)
		return 2
	}
	fmt.Printf("obligation: %v\nproperty: %v\nreason: %v\n", rep["obligation"], rep["property"], rep["reason"])
	if q, ok := rep["smt_query"].(string); ok {
		if _, err := os.Stat(q); err == nil {
			for _, sp := range solvers[:1] {
				st, out := runOne(sp, q, 20000, 0)
				fmt.Printf("re-running %s on %s: %s\n%s\n", sp.name, q, st, truncate(out, 3000))
			}
		}
	}
	if ws, ok := rep["witness_search"].(map[string]interface{}); ok {
		name, _ := ws["harness"].(string)
		for _, h := range harnesses {
			if h.Name != name {
				continue
			}
			fn := fmt.Sprint(rep["obligation"])
			if i := strings.Index(fn, "/"); i >= 0 {
				fn = fn[:i]
			}
			hr := runHarness(h, fn, nil)
			fmt.Printf("witness search %s on the working tree (%s):\n%s\n", h.Name, hr.Command, hr.Output)
			if hr.Reproduced {
				fmt.Println("replay: the failure reproduces on the real code")
				return 1
			}
			fmt.Println("replay: the witness search finds no failing input on this tree")
			return 0
		}
	}
	if r, ok := rep["replay"].(map[string]interface{}); ok {
		if t, ok := r["generated_test"].(string); ok && t != "" {
			out, repro := runReplayTest(t)
			fmt.Println(out)
			if repro {
				fmt.Println("replay: the failure reproduces on the real code")
				return 1
			}
			fmt.Println("replay: the failure did not reproduce")
		}
	}
	return 0
}

func cmdSelftest(args []string) int { return Selftest(args) }

// contractMentions reports whether any clause of the contract is tagged with a clause of the property (Cxx.y).
func contractMentions(fc *FuncContract, id string) bool {
	if fc == nil {
		return false
	}
	has := func(c *Clause) bool {
		if c == nil {
			return false
		}
		for _, t := range c.Tags {
			if t == id || strings.HasPrefix(t, id+".") {
				return true
			}
		}
		return false
	}
	for _, c := range fc.Requires {
		if has(c) {
			return true
		}
	}
	for _, c := range fc.Ensures {
		if has(c) {
			return true
		}
	}
	for _, l := range fc.Loops {
		for _, c := range l.Invariants {
			if has(c) {
				return true
			}
		}
	}
	for _, h := range fc.Hooks {
		for _, a := range h.Actions {
			if has(a.C) {
				return true
			}
		}
	}
	return false
}
