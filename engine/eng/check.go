package eng

func cmdCheck(args []string) int    { return 2 }
func cmdReplay(args []string) int   { return 2 }
func cmdSelftest(args []string) int { return 2 }
