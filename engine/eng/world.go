package eng

import (
	"go/token"
	"go/types"
	"strings"
	"sync"

	"golang.org/x/tools/go/ssa"
)

// World is shared by all function verifications of one run.
type World struct {
	P           *Program
	CS          *Contracts
	keyReg      map[string]func(*Exec)
	fieldTypes  map[string]types.Type
	structTypes map[string]types.Type
	globals     map[string]bool
	globalList  []string
	writes      map[*ssa.Function]map[string]bool
	inProgress  map[*ssa.Function]bool
	blocksMemo  map[*ssa.Function]string
	mu          sync.Mutex
	lockEdges   map[string]string
	shortLocks  map[string]bool
	lockProps   map[string][]string
	Sweep       bool
	qn          int
	implCache   map[string][]implOf
}

func NewWorld(p *Program, cs *Contracts) *World {
	w := &World{P: p, CS: cs, keyReg: map[string]func(*Exec){}, fieldTypes: map[string]types.Type{}, structTypes: map[string]types.Type{},
		globals: map[string]bool{}, writes: map[*ssa.Function]map[string]bool{}, inProgress: map[*ssa.Function]bool{},
		blocksMemo: map[*ssa.Function]string{}, lockEdges: map[string]string{}, shortLocks: map[string]bool{}, lockProps: map[string][]string{}}
	for name, m := range cs.Monitors {
		w.shortLocks[name] = true
		_ = m
	}
	return w
}

// ContractFor finds the contract of a function (verified package or stub).
func (w *World) ContractFor(fn *ssa.Function) *FuncContract {
	if fn == nil {
		return nil
	}
	if fn.Pkg != nil && w.P.Verified[fn.Pkg.Pkg.Path()] {
		name := w.P.ShortName(fn)
		if c, ok := w.CS.Funcs[name]; ok {
			return c
		}
		// var-bound function literals
		for k, f := range w.P.VarFuncs {
			if f == fn {
				if c, ok := w.CS.Funcs[k]; ok {
					return c
				}
			}
		}
		return nil
	}
	if c, ok := w.CS.Funcs[fn.String()]; ok {
		return c
	}
	return nil
}

func (w *World) StubFor(name string) *FuncContract {
	if c, ok := w.CS.Funcs[name]; ok {
		return c
	}
	return nil
}

func derefType(t types.Type) types.Type {
	if p, ok := types.Unalias(t).Underlying().(*types.Pointer); ok {
		return p.Elem()
	}
	return nil
}

// addrKeys returns the heap keys a store through address value v may write.
func (w *World) addrKeys(x *Exec, v ssa.Value, out map[string]bool) {
	switch a := v.(type) {
	case *ssa.Alloc:
		if !a.Heap {
			return
		}
		w.typeKeys(x, derefType(a.Type()), out)
	case *ssa.FieldAddr:
		if rootAlloc(a) != nil {
			return
		}
		// walk to the outermost heap struct
		st := derefType(a.X.Type())
		if st == nil {
			return
		}
		// nested: if a.X is itself a FieldAddr on a heap object, the key is that of the outer field
		if inner, ok := a.X.(*ssa.FieldAddr); ok && rootAlloc(inner) == nil {
			w.addrKeys(x, inner, out)
			return
		}
		k, _ := x.fieldHeapKey(st, a.Field)
		out[k] = true
	case *ssa.IndexAddr:
		switch u := types.Unalias(a.X.Type()).Underlying().(type) {
		case *types.Slice:
			out[x.elemHeapKey(u.Elem())] = true
		case *types.Pointer:
			if rootAlloc(a) != nil {
				return
			}
			w.addrKeys(x, a.X, out)
		}
	default:
		// arbitrary pointer value
		w.typeKeys(x, derefType(v.Type()), out)
	}
}

// typeKeys: all heap keys holding (parts of) a value of type t stored behind a pointer.
func (w *World) typeKeys(x *Exec, t types.Type, out map[string]bool) {
	if t == nil {
		return
	}
	if isStruct(t) {
		si := x.D.StructInfo(t)
		for i := range si.fields {
			k, _ := x.fieldHeapKey(t, i)
			out[k] = true
		}
		return
	}
	out[x.cellHeapKey(t)] = true
}

// instrWrites returns the heap keys an instruction may write (including callees).
func (w *World) instrWrites(x *Exec, in ssa.Instruction) map[string]bool {
	out := map[string]bool{}
	switch i := in.(type) {
	case *ssa.Store:
		w.addrKeys(x, i.Addr, out)
	case *ssa.MapUpdate:
		if m, ok := types.Unalias(i.Map.Type()).Underlying().(*types.Map); ok {
			h, v, c := x.mapHeapKeys(m)
			out[h], out[v], out[c] = true, true, true
		}
	case *ssa.Send:
		out[kChLen] = true
	case *ssa.Call:
		w.callWrites(x, &i.Call, out)
	case *ssa.Defer:
		w.callWrites(x, &i.Call, out)
	case *ssa.Go:
		// effects of the spawned goroutine are interference, not sequential effects
	case *ssa.MakeClosure:
	case *ssa.Select:
		out[kChLen] = true
	case *ssa.UnOp:
		if i.Op == token.ARROW {
			out[kChLen] = true
		}
	}
	return out
}

func (w *World) callWrites(x *Exec, c *ssa.CallCommon, out map[string]bool) {
	if b, ok := c.Value.(*ssa.Builtin); ok {
		switch b.Name() {
		case "append":
			if s, ok := types.Unalias(c.Args[0].Type()).Underlying().(*types.Slice); ok {
				out[x.elemHeapKey(s.Elem())] = true
			}
		case "copy":
			if s, ok := types.Unalias(c.Args[0].Type()).Underlying().(*types.Slice); ok {
				out[x.elemHeapKey(s.Elem())] = true
			}
		case "delete":
			if m, ok := types.Unalias(c.Args[0].Type()).Underlying().(*types.Map); ok {
				h, v, cc := x.mapHeapKeys(m)
				out[h], out[v], out[cc] = true, true, true
			}
		case "close":
			out[kChClosed] = true
		}
		return
	}
	if c.IsInvoke() {
		name := "(" + typeKey(c.Value.Type()) + ")." + c.Method.Name()
		if st := w.StubFor(name); st != nil {
			for _, m := range st.Modifies {
				out[m] = true
			}
		} else {
			// package-closed interface: the writes of every implementer
			for _, im := range x.closedImpls(c) {
				for k := range w.fnWrites(x, im.fn) {
					out[k] = true
				}
			}
		}
		return
	}
	var callee *ssa.Function
	switch v := c.Value.(type) {
	case *ssa.Function:
		callee = v
	case *ssa.MakeClosure:
		callee, _ = v.Fn.(*ssa.Function)
	}
	if callee == nil {
		// call through a function value: may write the objects its pointer arguments point to
		for _, a := range c.Args {
			if pt := derefType(a.Type()); pt != nil {
				if al, ok := a.(*ssa.Alloc); ok && !al.Heap {
					continue
				}
				w.typeKeys(x, pt, out)
			}
		}
		return
	}
	if strings.HasPrefix(callee.String(), "sync/atomic.") && len(c.Args) > 0 {
		n := callee.Name()
		if strings.HasPrefix(n, "Store") || strings.HasPrefix(n, "Add") || strings.HasPrefix(n, "Swap") || strings.HasPrefix(n, "CompareAndSwap") {
			w.addrKeys(x, c.Args[0], out)
		}
		return
	}
	for k := range w.fnWrites(x, callee) {
		out[k] = true
	}
}

// fnWrites computes the transitive write set of a function.
func (w *World) fnWrites(x *Exec, fn *ssa.Function) map[string]bool {
	if ws, ok := w.writes[fn]; ok {
		return ws
	}
	if w.inProgress[fn] {
		return map[string]bool{}
	}
	out := map[string]bool{}
	if fc := w.ContractFor(fn); fc != nil {
		for _, m := range fc.Modifies {
			out[m] = true
		}
		// ghost heaps set by the callee's hooks belong to its write set
		for _, h := range fc.Hooks {
			for _, a := range h.Actions {
				if a.Kind == "set" {
					if gs, ok := w.CS.GhostHeaps[a.Var]; ok {
						x.regHeap("G!"+a.Var, gs)
						out["G!"+a.Var] = true
					}
				}
			}
		}
	}
	name := fn.String()
	if w.intrinsicWrites(x, name, out) {
		w.writes[fn] = out
		return out
	}
	if fn.Pkg == nil || !w.P.Verified[fn.Pkg.Pkg.Path()] || len(fn.Blocks) == 0 {
		// library function: only the declared modifies of its stub
		w.writes[fn] = out
		return out
	}
	w.inProgress[fn] = true
	for _, b := range fn.Blocks {
		for _, in := range b.Instrs {
			for k := range w.instrWrites(x, in) {
				out[k] = true
			}
		}
	}
	// closures made here and possibly called later by the callee itself are covered
	// through their call sites; closures handed elsewhere are interference.
	delete(w.inProgress, fn)
	w.writes[fn] = out
	return out
}

func (w *World) intrinsicWrites(x *Exec, name string, out map[string]bool) bool {
	switch {
	case strings.HasPrefix(name, "(*sync.Mutex)."), strings.HasPrefix(name, "(*sync.RWMutex)."):
		return true
	case strings.HasPrefix(name, "sync/atomic."):
		// atomic stores write the addressed cell; handled at the call site
		return true
	}
	return false
}

// fnLocks returns the names (Type.field) of the mutex fields a function may acquire, transitively.
func (w *World) fnLocks(fn *ssa.Function, seen map[*ssa.Function]bool) map[string]bool {
	out := map[string]bool{}
	if fn == nil || seen[fn] || fn.Pkg == nil || !w.P.Verified[fn.Pkg.Pkg.Path()] {
		return out
	}
	seen[fn] = true
	for _, b := range fn.Blocks {
		for _, in := range b.Instrs {
			var c *ssa.CallCommon
			switch i := in.(type) {
			case *ssa.Call:
				c = &i.Call
			case *ssa.Defer:
				c = &i.Call
			}
			if c != nil && c.IsInvoke() {
				for _, im := range w.closedImpls(c) {
					for k := range w.fnLocks(im.fn, seen) {
						out[k] = true
					}
				}
			}
			if c == nil || c.IsInvoke() {
				continue
			}
			callee := c.StaticCallee()
			if callee == nil {
				continue
			}
			switch callee.String() {
			case "(*sync.Mutex).Lock", "(*sync.RWMutex).Lock", "(*sync.RWMutex).RLock":
				if n, _ := fieldOfAddr(c.Args[0]); n != "" {
					out[n] = true
				}
				continue
			}
			for k := range w.fnLocks(callee, seen) {
				out[k] = true
			}
		}
	}
	return out
}
