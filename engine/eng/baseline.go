package eng

import (
	"encoding/json"
	"fmt"
	"go/token"
	"go/types"
	"os"
	"path/filepath"
	"sort"
	"strings"

	"golang.org/x/tools/go/ssa"
)

// The baseline is a table of resolution hints recorded on the tree the contracts were written
// for (`gvc baseline`, committed as /verif/baseline.json). It holds NO code and NO results: per
// function under contract, (a) for every named local the contracts may mention its type and its
// ordinal among the locals of that type, and (b) for every hook the source-independent identity
// of the instructions its textual anchor selects (callee, interface method, struct field the
// channel or function value is loaded from, ...). It is consulted only when a name or an anchor
// of a contract no longer resolves textually - a renamed local, a sub-expression hoisted into a
// temporary - so that such an edit is not reported as contract drift. The verified text is still
// the current working tree; a wrong hint can only make obligations fail, never pass.

type baseLocal struct {
	Name  string `json:"name"`
	Type  string `json:"type"`
	Ord   int    `json:"ord"`
	Count int    `json:"count"`
}

type baseHook struct {
	Kind   string   `json:"kind"`
	Anchor string   `json:"anchor"`
	Idents []string `json:"idents"`
	Exact  bool     `json:"exact"` // the identities select exactly the instructions the text selects
}

type baseLoop struct {
	Anchor string `json:"anchor"`
	Index  int    `json:"index"` // position of the loop among the function's loops, in source order
	Total  int    `json:"total"`
}

type baseFunc struct {
	Params []string    `json:"params,omitempty"` // parameter names (receiver first) on the baseline tree
	Locals []baseLocal `json:"locals"`
	Hooks  []baseHook  `json:"hooks"`
	Loops  []baseLoop  `json:"loops,omitempty"`
}

type Baseline struct {
	Comment string               `json:"comment"`
	Funcs   map[string]*baseFunc `json:"functions"`
}

var baselineCache *Baseline

func baselinePath() string { return filepath.Join(VerifDir, "baseline.json") }

func loadBaseline() *Baseline {
	if baselineCache != nil {
		return baselineCache
	}
	b := &Baseline{Funcs: map[string]*baseFunc{}}
	if data, err := os.ReadFile(baselinePath()); err == nil {
		json.Unmarshal(data, b)
		if b.Funcs == nil {
			b.Funcs = map[string]*baseFunc{}
		}
	}
	baselineCache = b
	return b
}

func typeStr(t types.Type) string {
	return types.TypeString(t, func(p *types.Package) string { return p.Name() })
}

// namedLocals lists the source-level locals (and parameters, which NaiveForm also spills) of fn
// in instruction order.
func namedLocals(fn *ssa.Function) []*ssa.Alloc {
	var out []*ssa.Alloc
	for _, b := range fn.Blocks {
		for _, in := range b.Instrs {
			a, ok := in.(*ssa.Alloc)
			if !ok || a.Comment == "" {
				continue
			}
			switch a.Comment {
			case "rangeindex", "complit", "varargs", "new", "makeslice", "defer$stack", "slicelit", "makemap", "makechan":
				continue
			}
			if strings.ContainsAny(a.Comment, "$ ") {
				continue
			}
			out = append(out, a)
		}
	}
	return out
}

func localTable(fn *ssa.Function) []baseLocal {
	var out []baseLocal
	count := map[string]int{}
	ls := namedLocals(fn)
	for _, a := range ls {
		count[typeStr(derefType(a.Type()))]++
	}
	ord := map[string]int{}
	for _, a := range ls {
		ts := typeStr(derefType(a.Type()))
		ord[ts]++
		out = append(out, baseLocal{Name: a.Comment, Type: ts, Ord: ord[ts], Count: count[ts]})
	}
	return out
}

// baselineLocal resolves a contract identifier that names no local of the current function
// through the baseline: the local of the same type at the same ordinal, provided the function
// still has as many locals of that type.
func (x *Exec) baselineLocal(name string) *ssa.Alloc {
	bf := loadBaseline().Funcs[x.name]
	if bf == nil || x.fn == nil {
		return nil
	}
	want := 1
	base := name
	if i := strings.Index(name, "#"); i >= 0 {
		fmt.Sscanf(name[i+1:], "%d", &want)
		base = name[:i]
	}
	n := 0
	for _, bl := range bf.Locals {
		if bl.Name != base {
			continue
		}
		n++
		if n != want {
			continue
		}
		k := 0
		cnt := 0
		var pick *ssa.Alloc
		for _, a := range namedLocals(x.fn) {
			if typeStr(derefType(a.Type())) == bl.Type {
				cnt++
				k++
				if k == bl.Ord {
					pick = a
				}
			}
		}
		if cnt == bl.Count && pick != nil {
			// the name must really be gone, and the candidate must not be a local the baseline knows under its own name
			for _, b2 := range bf.Locals {
				if b2.Name == pick.Comment && b2.Name != base {
					return nil
				}
			}
			x.note("contract identifier %q resolved to local %q (same type %s, same position) through the baseline", name, pick.Comment, bl.Type)
			return pick
		}
		return nil
	}
	return nil
}

// paramAlias resolves a contract identifier that named a parameter of fn on the baseline tree and names
// nothing in fn now (the parameter was renamed): the parameter at the same position, if the function
// still has as many parameters and no parameter, named local or named result carries the old name.
func (w *World) paramAlias(fn *ssa.Function, name string) *ssa.Parameter {
	if fn == nil {
		return nil
	}
	key := ""
	if fn.Pkg != nil && w.P.Verified[fn.Pkg.Pkg.Path()] {
		key = w.P.ShortName(fn)
	}
	bf := loadBaseline().Funcs[key]
	if bf == nil || len(bf.Params) != len(fn.Params) {
		return nil
	}
	for _, p := range fn.Params {
		if p.Name() == name {
			return nil
		}
	}
	for _, a := range namedLocals(fn) {
		if a.Comment == name {
			return nil
		}
	}
	for i, old := range bf.Params {
		if old == name && old != "" && old != "_" {
			// the new name must not be one the baseline knows as another parameter
			for j, o2 := range bf.Params {
				if j != i && o2 == fn.Params[i].Name() {
					return nil
				}
			}
			return fn.Params[i]
		}
	}
	return nil
}

// valueIdentity describes where a value comes from, independently of the names of locals.
func (x *Exec) valueIdentity(v ssa.Value, depth int) string {
	if depth > 6 || v == nil {
		return "?"
	}
	switch u := v.(type) {
	case *ssa.Parameter:
		for i, p := range u.Parent().Params {
			if p == u {
				return fmt.Sprintf("param:%d", i)
			}
		}
		return "param:?"
	case *ssa.FreeVar:
		return "freevar:" + typeStr(u.Type())
	case *ssa.Global:
		return "global:" + u.Name()
	case *ssa.Function:
		return "func:" + x.P.ShortName(u)
	case *ssa.MakeClosure:
		return "closure"
	case *ssa.Const:
		return "const"
	case *ssa.MakeChan:
		return "makechan:" + typeStr(u.Type())
	case *ssa.ChangeType:
		return x.valueIdentity(u.X, depth+1)
	case *ssa.ChangeInterface:
		return x.valueIdentity(u.X, depth+1)
	case *ssa.MakeInterface:
		return x.valueIdentity(u.X, depth+1)
	case *ssa.Extract:
		return fmt.Sprintf("%s.%d", x.valueIdentity(u.Tuple, depth+1), u.Index)
	case *ssa.Lookup:
		return "lookup:" + x.valueIdentity(u.X, depth+1)
	case *ssa.Call:
		return "call:" + x.calleeIdentity(u.Common(), depth+1)
	case *ssa.UnOp:
		if u.Op != token.MUL {
			if u.Op == token.ARROW {
				return "recv:" + x.valueIdentity(u.X, depth+1)
			}
			return "?"
		}
		switch a := u.X.(type) {
		case *ssa.FieldAddr:
			if n, _ := fieldOfAddr(a); n != "" {
				return "field:" + n
			}
		case *ssa.Global:
			return "global:" + a.Name()
		case *ssa.IndexAddr:
			return "elem:" + x.valueIdentity(a.X, depth+1)
		case *ssa.Alloc:
			if a.Referrers() != nil {
				var stores []*ssa.Store
				for _, r := range *a.Referrers() {
					if s, ok := r.(*ssa.Store); ok && s.Addr == ssa.Value(a) {
						stores = append(stores, s)
					}
				}
				if len(stores) == 1 {
					id := x.valueIdentity(stores[0].Val, depth+1)
					for _, p := range []string{"field:", "param:", "call:", "global:", "makechan:"} {
						if strings.HasPrefix(id, p) {
							return id
						}
					}
				}
			}
			ts := typeStr(derefType(a.Type()))
			k := 0
			for _, l := range namedLocals(a.Parent()) {
				if typeStr(derefType(l.Type())) == ts {
					k++
					if l == a {
						return fmt.Sprintf("local:%s#%d", ts, k)
					}
				}
			}
			return "local:" + ts
		}
	}
	return "?"
}

func (x *Exec) calleeIdentity(cc *ssa.CallCommon, depth int) string {
	if cc.IsInvoke() {
		return "(" + typeStr(cc.Value.Type()) + ")." + cc.Method.Name() + "@" + x.valueIdentity(cc.Value, depth+1)
	}
	if b, ok := cc.Value.(*ssa.Builtin); ok {
		return "builtin:" + b.Name()
	}
	if f := cc.StaticCallee(); f != nil {
		if f.Parent() != nil {
			return "closure"
		}
		return x.P.ShortName(f)
	}
	return x.valueIdentity(cc.Value, depth+1)
}

// instrIdentities: the identities an instruction offers per hook kind.
func (x *Exec) instrIdentities(in ssa.Instruction) map[string][]string {
	out := map[string][]string{}
	switch i := in.(type) {
	case *ssa.Call:
		if b, ok := i.Call.Value.(*ssa.Builtin); ok && b.Name() == "close" && len(i.Call.Args) == 1 {
			out["close"] = []string{x.valueIdentity(i.Call.Args[0], 0)}
			return out
		}
		out["call"] = []string{x.calleeIdentity(&i.Call, 0)}
	case *ssa.Go:
		out["go"] = []string{x.calleeIdentity(&i.Call, 0)}
	case *ssa.Defer:
		out["defer"] = []string{x.calleeIdentity(&i.Call, 0)}
	case *ssa.Send:
		out["send"] = []string{x.valueIdentity(i.Chan, 0)}
	case *ssa.UnOp:
		if i.Op == token.ARROW {
			out["recv"] = []string{x.valueIdentity(i.X, 0)}
		}
	case *ssa.Select:
		for _, s := range i.States {
			if s.Dir == types.RecvOnly {
				out["recv"] = append(out["recv"], x.valueIdentity(s.Chan, 0))
			} else {
				out["send"] = append(out["send"], x.valueIdentity(s.Chan, 0))
			}
		}
	}
	return out
}

func usable(id string) bool {
	return id != "" && id != "?" && id != "closure" && id != "const" && !strings.Contains(id, "?")
}

// WriteBaseline records the resolution hints for every function under contract of the session.
func (s *Session) collectBaseline(into *Baseline) {
	for _, name := range s.CS.Order {
		fc := s.CS.Funcs[name]
		if fc == nil || fc.Trusted {
			continue
		}
		fn := s.P.Lookup(name)
		if fn == nil || len(fn.Blocks) == 0 {
			continue
		}
		x := NewExec(s.W, fn, fc, name)
		for _, h := range fc.Hooks {
			h.Used = 0
		}
		func() {
			defer func() { recover() }()
			x.mapHooksText()
		}()
		bf := &baseFunc{Locals: localTable(fn)}
		for _, p := range fn.Params {
			bf.Params = append(bf.Params, p.Name())
		}
		func() {
			defer func() { recover() }()
			for _, lc := range fc.Loops {
				lc.Used = 0
			}
			x.analyzeLoops()
			order := x.loopsInSourceOrder()
			for _, lc := range fc.Loops {
				for i, li := range order {
					if li.lc == lc {
						bf.Loops = append(bf.Loops, baseLoop{Anchor: lc.Anchor, Index: i, Total: len(order)})
					}
				}
			}
		}()
		// instructions of fn and its closures
		var instrs []ssa.Instruction
		var walk func(f *ssa.Function)
		walk = func(f *ssa.Function) {
			for _, b := range f.Blocks {
				instrs = append(instrs, b.Instrs...)
			}
			for _, a := range f.AnonFuncs {
				walk(a)
			}
		}
		walk(fn)
		for _, h := range fc.Hooks {
			bh := baseHook{Kind: h.Kind, Anchor: h.Anchor}
			set := map[string]bool{}
			textSel := map[ssa.Instruction]bool{}
			for in, hs := range x.hooksAt {
				for _, h2 := range hs {
					if h2 == h {
						textSel[in] = true
					}
				}
			}
			for in := range textSel {
				ids := x.instrIdentities(in)[h.Kind]
				if _, isSel := in.(*ssa.Select); isSel {
					// only the states whose text matches
					ids = nil
					sel := in.(*ssa.Select)
					for _, st := range sel.States {
						var txt string
						if st.Dir == types.RecvOnly {
							txt = x.recvText(st.Pos)
							if h.Kind != "recv" {
								continue
							}
						} else {
							txt = x.sendText(st.Pos)
							if h.Kind != "send" {
								continue
							}
						}
						if anchorMatch(h.Anchor, txt) {
							ids = append(ids, x.valueIdentity(st.Chan, 0))
						}
					}
				}
				for _, id := range ids {
					if usable(id) {
						set[id] = true
					}
				}
			}
			bh.Idents = sortedKeys(set)
			// exactness: the identities select exactly the text-selected instructions
			exact := len(bh.Idents) > 0
			for _, in := range instrs {
				hit := false
				for _, id := range x.instrIdentities(in)[h.Kind] {
					if set[id] {
						hit = true
					}
				}
				if hit != textSel[in] {
					exact = false
				}
			}
			bh.Exact = exact
			bf.Hooks = append(bf.Hooks, bh)
		}
		into.Funcs[name] = bf
	}
}

// WriteBaselineFile is `gvc baseline`: loads every package set that has contracts and writes the table.
func WriteBaselineFile() error {
	b := &Baseline{Comment: "Resolution hints for contract names and anchors (engine/eng/baseline.go). No code, no results; regenerate with `gvc baseline` after editing contracts.", Funcs: map[string]*baseFunc{}}
	seen := map[string]bool{}
	ids := sortedKeys(plansKeys())
	for _, id := range ids {
		p := plans[id]
		if p.Gen || len(p.Pkgs) == 0 {
			if id != "C16" {
				continue
			}
		}
		key := strings.Join(p.Pkgs, ",")
		if seen[key] || len(p.Pkgs) == 0 {
			continue
		}
		seen[key] = true
		s, err := NewSession(p.Pkgs, 10000, 0, false, nil)
		if err != nil {
			return err
		}
		s.collectBaseline(b)
		s.Close()
	}
	data, _ := json.MarshalIndent(b, "", " ")
	return os.WriteFile(baselinePath(), data, 0o644)
}

func plansKeys() map[string]bool {
	m := map[string]bool{}
	for k := range plans {
		m[k] = true
	}
	return m
}

var _ = sort.Strings

// loopsInSourceOrder lists the loops of the function under verification by source position.
func (x *Exec) loopsInSourceOrder() []*loopInfo {
	var out []*loopInfo
	for _, li := range x.loops {
		if li.stmt != nil {
			out = append(out, li)
		}
	}
	sort.SliceStable(out, func(i, j int) bool { return out[i].stmt.Pos() < out[j].stmt.Pos() })
	return out
}
