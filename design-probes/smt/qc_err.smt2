(declare-sort Msg 0)
(define-sort BSet () (Array Int Bool))
(define-sort MMap () (Array Int Msg))
(declare-const has BSet) (declare-const val MMap) (declare-const card Int) (declare-const nErr Int)
(declare-const seen BSet) (declare-const failed BSet) (declare-const okmsg MMap)
(declare-const nH Int) (declare-const nOK Int) (declare-const nQF Int) (declare-const lastQ Bool) (declare-const exp Int)
(define-fun Inv ((has BSet) (val MMap) (card Int) (nErr Int) (seen BSet) (failed BSet) (okmsg MMap) (nH Int) (nOK Int) (nQF Int) (lastQ Bool) (exp Int)) Bool
 (and (= (+ card nErr) nH) (< nH exp) (= nQF nOK) (= nOK card) (not lastQ) (>= card 0) (>= nErr 0)
  (forall ((k Int)) (=> (select has k) (and (select seen k) (not (select failed k)) (= (select val k) (select okmsg k)))))
  (forall ((k Int)) (=> (select failed k) (select seen k)))))
(assert (Inv has val card nErr seen failed okmsg nH nOK nQF lastQ exp))
; receive
(declare-const nid Int) (declare-const msg Msg) (declare-const iserr Bool)
(assert (not (select seen nid)))            ; rely E1
(define-fun seen2 () BSet (store seen nid true))
(define-fun nH2 () Int (+ nH 1))
(assert iserr)
(define-fun failed2 () BSet (store failed nid true))
(define-fun nErr2 () Int (+ nErr 1))
(assert (not (and
  (=> (not (= (+ nErr2 card) exp)) (Inv has val card nErr2 seen2 failed2 okmsg nH2 nOK nQF lastQ exp))
  (=> (= (+ nErr2 card) exp) (= nH2 exp)))))
(check-sat)
