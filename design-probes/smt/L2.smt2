(define-sort Arr () (Array Int Int))
(define-fun-rec count ((a Arr) (n Int) (x Int)) Int
  (ite (<= n 0) 0 (+ (count a (- n 1) x) (ite (= (select a (- n 1)) x) 1 0))))
(declare-const a Arr) (declare-const n Int)
(assert (>= n 0))
(assert (forall ((i Int)) (=> (and (<= 0 i) (< i n)) (>= (count a n (select a i)) 1))))  ; IH
(assert (forall ((x Int)) (>= (count a n x) 0)))                                          ; IH0
(declare-const i Int)
(assert (and (<= 0 i) (< i (+ n 1))))
(assert (not (>= (count a (+ n 1) (select a i)) 1)))
(check-sat)
