; init: from loop-1 exit: exp = lenc - skipped, 0<=skipped<=lenc, lenc>=1 ; progress needs 0 < exp
(declare-const lenc Int) (declare-const skipped Int) (declare-const exp Int)
(assert (and (>= lenc 1) (<= 0 skipped) (<= skipped lenc) (= exp (- lenc skipped))))
(assert (not (< 0 exp)))
(check-sat)
(get-model)
