(define-sort Arr () (Array Int Int))
(define-fun-rec count ((a Arr) (n Int) (x Int)) Int
  (ite (<= n 0) 0 (+ (count a (- n 1) x) (ite (= (select a (- n 1)) x) 1 0))))
(declare-const a Arr) (declare-const n Int) (declare-const k Int) (declare-const v Int) (declare-const x Int)
(assert (>= n 0)) (assert (>= k (+ n 1)))
(assert (= (count (store a k v) n x) (count a n x)))   ; IH
(assert (not (= (count (store a k v) (+ n 1) x) (count a (+ n 1) x))))
(check-sat)
