(define-sort Arr () (Array Int Int))
(define-fun-rec count ((a Arr) (n Int) (x Int)) Int
  (ite (<= n 0) 0 (+ (count a (- n 1) x) (ite (= (select a (- n 1)) x) 1 0))))
(declare-const a Arr) (declare-const n Int)
(assert (>= n 0))
(assert (forall ((i Int) (j Int)) (=> (and (<= 0 i) (< i j) (< j n) (= (select a i) (select a j))) (>= (count a n (select a i)) 2))))  ; IH
(assert (forall ((i Int)) (=> (and (<= 0 i) (< i n)) (>= (count a n (select a i)) 1))))  ; L2
(assert (forall ((x Int)) (>= (count a n x) 0)))
(declare-const i Int) (declare-const j Int)
(assert (and (<= 0 i) (< i j) (< j (+ n 1)) (= (select a i) (select a j))))
(assert (not (>= (count a (+ n 1) (select a i)) 2)))
(check-sat)
