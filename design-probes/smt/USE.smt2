(define-sort Arr () (Array Int Int))
(define-fun-rec count ((a Arr) (n Int) (x Int)) Int
  (ite (<= n 0) 0 (+ (count a (- n 1) x) (ite (= (select a (- n 1)) x) 1 0))))
(declare-const nodes Arr) (declare-const nlen Int) (declare-const id Int)
(assert (>= nlen 0))
(assert (forall ((a Arr) (n Int) (k Int) (v Int) (x Int)) (! (=> (and (>= n 0) (>= k n)) (= (count (store a k v) n x) (count a n x))) :pattern ((count (store a k v) n x)))))  ; L1
(assert (forall ((x Int)) (<= (count nodes nlen x) 1)))          ; distinct
(assert (= (count nodes nlen id) 0))                              ; id not yet present
(assert (not (forall ((x Int)) (<= (count (store nodes nlen id) (+ nlen 1) x) 1))))
(check-sat)
