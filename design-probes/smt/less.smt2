(declare-fun less (Int Int Int) Bool)   ; key index, p, q
(declare-const nk Int)
(define-fun-rec lex ((k Int) (p Int) (q Int)) Bool
  (ite (>= k (- nk 1)) (less k p q) (or (less k p q) (and (not (less k q p)) (lex (+ k 1) p q)))))
(declare-const k Int) (declare-const p Int) (declare-const q Int)
(assert (>= nk 1)) (assert (<= 0 k)) (assert (<= k (- nk 1)))
(assert (= (lex 0 p q) (lex k p q)))      ; loop invariant
; obligations for one iteration / exit
(assert (not (and
  (=> (and (< k (- nk 1)) (less k p q)) (= (lex 0 p q) true))
  (=> (and (< k (- nk 1)) (not (less k p q)) (less k q p)) (= (lex 0 p q) false))
  (=> (and (< k (- nk 1)) (not (less k p q)) (not (less k q p))) (= (lex 0 p q) (lex (+ k 1) p q)))
  (=> (not (< k (- nk 1))) (= (lex 0 p q) (less k p q))))))
(check-sat)
