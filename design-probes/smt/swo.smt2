; LastNodeError as written: less(a,b) = not (hasErr(a) and not hasErr(b))
(declare-fun hasErr (Int) Bool)
(define-fun lne ((a Int) (b Int)) Bool (not (and (hasErr a) (not (hasErr b)))))
(declare-const a Int)
(assert (not (not (lne a a))))   ; negated irreflexivity
(check-sat) (get-model)
