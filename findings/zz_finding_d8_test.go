package gorums

// Witness for known finding D8 (property C09), run on the real code through an overlay:
//
//	/verif/tools/finding_demo.sh D8
//
// A server-stream correctable call on one node; its quorum function is slow (gated by the test).
// The node's receiver hands stream updates to the call through routeResponse, which sends on the
// call's reply channel (capacity = number of nodes = 1) while holding responseMut. Update 1 is
// taken by the call (which is now inside the quorum function), update 2 fills the channel, update 3
// blocks INSIDE routeResponse with responseMut held. From then on every enqueue on this node -
// any call of any type - blocks on responseMut before it even looks at its context.
// Deterministic; the receiver's role is played by the test (the real routeResponse is called).

import (
	"context"
	"testing"
	"time"

	"github.com/relab/gorums/ordering"
	"github.com/relab/gorums/tests/mock"
	"google.golang.org/protobuf/reflect/protoreflect"
)

func TestFindingD8(t *testing.T) {
	mgr := NewRawManager(WithNoConnect())
	node := &RawNode{id: 1, addr: "127.0.0.1:1", mgr: mgr}
	ch := &channel{sendQ: make(chan request, 4), node: node, responseRouters: make(map[uint64]responseRouter), parentCtx: context.Background()}
	node.channel = ch
	cfg := RawConfiguration{node}
	gate := make(chan struct{})
	defer close(gate)
	inQF := make(chan struct{}, 4)
	corr := cfg.CorrectableCall(context.Background(), CorrectableCallData{Message: &mock.Request{Val: "stream"}, Method: "mock.Server.Test", ServerStream: true,
		QuorumFunction: func(_ protoreflect.ProtoMessage, r map[uint32]protoreflect.ProtoMessage) (protoreflect.ProtoMessage, int, bool) {
			inQF <- struct{}{}
			<-gate // a slow quorum function
			return &mock.Response{}, len(r), false
		}})
	_ = corr
	req := <-ch.sendQ
	id := req.msg.Metadata.MessageID
	route := func(k int) chan struct{} {
		done := make(chan struct{})
		go func() { ch.routeResponse(id, response{nid: 1, msg: &mock.Response{Val: "update"}}); close(done) }()
		return done
	}
	<-route(1)
	<-inQF // the call is inside its quorum function
	<-route(2)
	third := route(3)
	select {
	case <-third:
		t.Log("D8 did not reproduce: the third stream update was handed over")
		return
	case <-time.After(300 * time.Millisecond):
	}
	// the receiver is now stuck inside routeResponse holding responseMut: the node is dead for everybody
	ctx, cancel := context.WithTimeout(context.Background(), 200*time.Millisecond)
	defer cancel()
	enq := make(chan struct{})
	go func() {
		md := &ordering.Metadata{MessageID: mgr.getMsgID(), Method: "mock.Server.Test"}
		ch.enqueue(request{ctx: ctx, msg: &Message{Metadata: md, Message: &mock.Request{}}}, make(chan response, 1), false)
		close(enq)
	}()
	select {
	case <-enq:
		t.Log("D8 did not reproduce: another call could still be enqueued")
	case <-time.After(time.Second):
		t.Fatalf("FINDING-REPRODUCED D8: the node's receiver is blocked inside routeResponse (third update of a streaming call whose quorum function is slow) holding responseMut; an unrelated call with a 200 ms deadline is still stuck in enqueue after 1 s")
	}
}
