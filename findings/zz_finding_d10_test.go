package gorums

// Witness for known finding D10 (property C10), run on the real code through an overlay:
//
//	/verif/tools/finding_demo.sh D10
//
// The node's stream fails while the node is unreachable: the receiver's first reconnection attempt
// fails and it goes to sleep in its back-off (2 s here; up to 120 s with the default configuration).
// The node comes back at once. The next call makes the SENDER re-establish the stream (connect ->
// reconnect(1)) and the request reaches the server immediately - but nobody reads the reply: the
// receiver is still asleep, its select waits only for the timer and for Close. The reply waits out
// the back-off. Real sender and receiver over an in-memory stream; deterministic.

import (
	"context"
	"io"
	"sync"
	"testing"
	"time"

	"github.com/relab/gorums/ordering"
	"github.com/relab/gorums/tests/mock"
	"google.golang.org/grpc"
	"google.golang.org/grpc/backoff"
	"google.golang.org/grpc/codes"
	"google.golang.org/grpc/status"
)

type findingD10Stream struct {
	grpc.ClientStream
	ctx    context.Context
	sent   chan *Message
	in     chan *Message
	broken chan struct{}
}

func (s *findingD10Stream) Send(*ordering.Metadata) error     { return nil }
func (s *findingD10Stream) Recv() (*ordering.Metadata, error) { return nil, nil }
func (s *findingD10Stream) Context() context.Context          { return s.ctx }
func (s *findingD10Stream) SendMsg(m interface{}) error       { s.sent <- m.(*Message); return nil }
func (s *findingD10Stream) RecvMsg(m interface{}) error {
	select {
	case r := <-s.in:
		out := m.(*Message)
		out.Metadata, out.Message = r.Metadata, r.Message
		return nil
	case <-s.broken:
		return io.ErrUnexpectedEOF
	case <-s.ctx.Done():
		return status.FromContextError(s.ctx.Err()).Err()
	}
}

type findingD10Client struct {
	mu      sync.Mutex
	down    bool
	created chan *findingD10Stream
}

func (c *findingD10Client) NodeStream(ctx context.Context, _ ...grpc.CallOption) (ordering.Gorums_NodeStreamClient, error) {
	c.mu.Lock()
	defer c.mu.Unlock()
	if c.down {
		return nil, status.Error(codes.Unavailable, "node unreachable")
	}
	s := &findingD10Stream{ctx: ctx, sent: make(chan *Message, 4), in: make(chan *Message, 4), broken: make(chan struct{})}
	c.created <- s
	return s, nil
}

func TestFindingD10(t *testing.T) {
	mgr := NewRawManager(WithNoConnect(), WithBackoff(backoff.Config{BaseDelay: 2 * time.Second, Multiplier: 1.6, Jitter: 0, MaxDelay: 10 * time.Second}))
	node := &RawNode{id: 1, addr: "127.0.0.1:1", mgr: mgr}
	ch := newChannel(node)
	node.channel = ch
	defer node.close()
	client := &findingD10Client{created: make(chan *findingD10Stream, 4)}
	ch.gorumsClient = client
	ch.streamMut.Lock()
	ch.streamCtx, ch.cancelStream = context.WithCancel(ch.parentCtx)
	ch.gorumsStream, _ = client.NodeStream(ch.streamCtx)
	ch.streamMut.Unlock()
	ch.connEstablished.set()
	go ch.receiver()
	s1 := <-client.created
	// the node goes down, the stream breaks, the receiver's immediate retry fails: it sleeps for 2 s
	client.mu.Lock()
	client.down = true
	client.mu.Unlock()
	close(s1.broken)
	time.Sleep(50 * time.Millisecond)
	// the node is back after 50 ms
	client.mu.Lock()
	client.down = false
	client.mu.Unlock()
	start := time.Now()
	done := make(chan error, 1)
	go func() {
		_, err := node.RPCCall(context.Background(), CallData{Message: &mock.Request{Val: "after restart"}, Method: "mock.Server.Test"})
		done <- err
	}()
	var s2 *findingD10Stream
	select {
	case s2 = <-client.created:
	case <-time.After(time.Second):
		t.Log("D10 did not reproduce: the sender did not re-establish the stream")
		return
	}
	req := <-s2.sent
	t.Logf("the request reached the restarted server %v after the call was issued; the server answers at once", time.Since(start).Round(time.Millisecond))
	s2.in <- &Message{Metadata: &ordering.Metadata{MessageID: req.Metadata.MessageID, Method: "mock.Server.Test"}, Message: &mock.Response{Val: "reply"}}
	select {
	case err := <-done:
		t.Logf("D10 did not reproduce: the call returned after %v (err %v)", time.Since(start).Round(time.Millisecond), err)
	case <-time.After(time.Second):
		err := <-done
		t.Fatalf("FINDING-REPRODUCED D10: the reply of the restarted node was on the stream after a few milliseconds, the call returned only after %v (err %v): it waited for the receiver to sleep out its back-off", time.Since(start).Round(10*time.Millisecond), err)
	}
}
