package gorums

// Witness for defect D16 (property C15, and C12 through the leaked connection), run on the real
// code through an overlay WITH the race detector:
//
//	/verif/tools/finding_demo.sh D16
//
// RawNode.conn has no synchronisation discipline: the node's sender goroutine assigns it in dial()
// (called from connect() for the first request to a node that has not been connected yet), while
// Manager.Close reads it in RawNode.close(). A Close that overlaps the first call to such a node
// races on the field; when close() reads nil just before dial() stores the new connection, that
// connection is never closed. The oracle is the race detector (the test itself only drives the two
// operations side by side).

import (
	"context"
	"net"
	"testing"
	"time"

	"github.com/relab/gorums/tests/mock"
	"google.golang.org/grpc"
	"google.golang.org/grpc/credentials/insecure"
)

func TestFindingD16(t *testing.T) {
	lis, err := net.Listen("tcp", "127.0.0.1:0")
	if err != nil {
		t.Fatal(err)
	}
	defer lis.Close()
	for i := 0; i < 200; i++ {
		mgr := NewRawManager(WithNoConnect(), WithGrpcDialOptions(grpc.WithTransportCredentials(insecure.NewCredentials())))
		node := &RawNode{id: 1, addr: lis.Addr().String(), mgr: mgr}
		node.channel = newChannel(node)
		ctx, cancel := context.WithTimeout(context.Background(), 50*time.Millisecond)
		done := make(chan struct{})
		go func() {
			node.RPCCall(ctx, CallData{Message: &mock.Request{}, Method: "mock.Server.Test"}) // first request: the sender dials
			close(done)
		}()
		time.Sleep(time.Duration(i%5) * 20 * time.Microsecond)
		node.close() // what Manager.Close does
		<-done
		cancel()
		if node.conn != nil {
			node.conn.Close()
		}
	}
	t.Log("FINDING D16: if the race detector is on and reports nothing above, the race did not show in 200 rounds")
}
