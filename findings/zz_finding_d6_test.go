package gorums

// Witness for defect D6 (property C12: "every call that was in progress returns ... for every
// manager option, including a non-zero send buffer"), run on the real code through an overlay:
//
//	/verif/tools/finding_demo.sh D6
//
// A manager with WithSendBufferSize(4) and a node that has never been reachable (so the channel
// has no receiver goroutine, whose cancelPendingMsgs would otherwise answer everything at Close).
// The sender is busy dialling for the first request (blocking dial, 150 ms timeout); two more calls
// are accepted into the send buffer. Close. The sender finishes the first request, then its select
// sees both a closed context and a non-empty queue and picks one at random: when it picks the
// context it returns and the buffered requests are never looked at again - their callers, which
// have no deadline of their own, wait for ever. Real newChannel / sender / connect / dial.

import (
	"context"
	"testing"
	"time"

	"github.com/relab/gorums/tests/mock"
	"google.golang.org/grpc"
	"google.golang.org/grpc/credentials/insecure"
)

func findingD6Attempt(t *testing.T) (stranded int) {
	mgr := NewRawManager(WithNoConnect(), WithSendBufferSize(4), WithDialTimeout(150*time.Millisecond),
		WithGrpcDialOptions(grpc.WithBlock(), grpc.WithTransportCredentials(insecure.NewCredentials())))
	node := &RawNode{id: 1, addr: "127.0.0.1:9", mgr: mgr} // nothing listens there
	ch := newChannel(node)
	node.channel = ch
	call := func() chan error {
		done := make(chan error, 1)
		go func() {
			_, err := node.RPCCall(context.Background(), CallData{Message: &mock.Request{}, Method: "mock.Server.Test"})
			done <- err
		}()
		return done
	}
	first := call()
	deadline := time.Now().Add(time.Second)
	for len(ch.sendQ) != 0 && time.Now().Before(deadline) {
		time.Sleep(time.Millisecond) // the sender has taken the first request and is dialling
	}
	time.Sleep(10 * time.Millisecond)
	second, third := call(), call()
	for len(ch.sendQ) != 2 && time.Now().Before(deadline) {
		time.Sleep(time.Millisecond)
	}
	if len(ch.sendQ) != 2 {
		return 0
	}
	node.close() // what Manager.Close does for every node
	for _, c := range []chan error{first, second, third} {
		select {
		case <-c:
		case <-time.After(time.Second):
			stranded++
		}
	}
	return stranded
}

func TestFindingD6(t *testing.T) {
	for a := 0; a < 12; a++ {
		if n := findingD6Attempt(t); n > 0 {
			t.Fatalf("FINDING-REPRODUCED D6: attempt %d: %d call(s) that were in progress when the node was closed (their requests were waiting in the send buffer, size 4) have not returned 1 s after Close; the sender goroutine is gone and the node has no receiver that would fail them", a+1, n)
		}
	}
	t.Log("D6 did not reproduce in 12 attempts")
}
