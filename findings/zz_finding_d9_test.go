package gorums

// Witness for known finding D9 (property C09), run on the real code through an overlay:
//
//	/verif/tools/finding_demo.sh D9
//
// A node accepts the node stream, but the stream breaks whenever a request is written to it.
// Every call fails, as it should. After a failed send the receiver re-establishes the stream and
// parks in RecvMsg on the healthy new stream WHILE HOLDING streamMut's read lock; the sender,
// which observed the broken flag for its next request, calls connect -> reconnect(1) and blocks
// in streamMut.Lock() for ever (the new stream never fails). From then on the node is disabled:
// calls with a long-lived context never return. The real sender and receiver goroutines run on an
// in-memory stream; the wedge needs one particular interleaving and shows up in roughly one of
// three attempts, so the scenario is repeated.

import (
	"context"
	"io"
	"runtime"
	"strings"
	"testing"
	"time"

	"github.com/relab/gorums/ordering"
	"github.com/relab/gorums/tests/mock"
	"google.golang.org/grpc"
	"google.golang.org/grpc/backoff"
	"google.golang.org/grpc/status"
)

type findingD9Stream struct {
	grpc.ClientStream
	ctx    context.Context
	broken chan struct{}
}

func (s *findingD9Stream) Send(*ordering.Metadata) error     { return nil }
func (s *findingD9Stream) Recv() (*ordering.Metadata, error) { return nil, nil }
func (s *findingD9Stream) Context() context.Context          { return s.ctx }

func (s *findingD9Stream) SendMsg(m interface{}) error {
	select {
	case <-s.broken:
	default:
		close(s.broken)
	}
	return io.EOF // what gRPC returns from SendMsg on a broken stream
}

func (s *findingD9Stream) RecvMsg(m interface{}) error {
	select {
	case <-s.broken:
		return io.ErrUnexpectedEOF
	case <-s.ctx.Done():
		return status.FromContextError(s.ctx.Err()).Err()
	}
}

type findingD9Client struct{}

func (findingD9Client) NodeStream(ctx context.Context, _ ...grpc.CallOption) (ordering.Gorums_NodeStreamClient, error) {
	return &findingD9Stream{ctx: ctx, broken: make(chan struct{})}, nil
}

func findingD9Attempt(t *testing.T) (wedged bool) {
	mgr := NewRawManager(WithNoConnect())
	n := &RawNode{id: 1, addr: "127.0.0.1:1", mgr: mgr}
	parentCtx, closeNode := context.WithCancel(context.Background())
	defer closeNode()
	c := &channel{
		sendQ:           make(chan request),
		node:            n,
		responseRouters: make(map[uint64]responseRouter),
		parentCtx:       parentCtx,
		backoffCfg:      backoff.DefaultConfig,
		gorumsClient:    findingD9Client{},
	}
	c.streamCtx, c.cancelStream = context.WithCancel(parentCtx)
	c.gorumsStream, _ = c.gorumsClient.NodeStream(c.streamCtx)
	c.connEstablished.set()
	n.channel = c
	go c.sender()
	go c.receiver()
	appCtx, appCancel := context.WithCancel(context.Background())
	defer appCancel()
	for i := 0; i < 25; i++ {
		done := make(chan error, 1)
		go func() {
			_, err := n.RPCCall(appCtx, CallData{Message: &mock.Request{}, Method: "mock.Server.Test"})
			done <- err
		}()
		select {
		case <-done:
		case <-time.After(1500 * time.Millisecond):
			buf := make([]byte, 1<<20)
			buf = buf[:runtime.Stack(buf, true)]
			var where []string
			for _, g := range strings.Split(string(buf), "\n\n") {
				if strings.Contains(g, "(*channel).sender") || strings.Contains(g, "(*channel).receiver") {
					ls := strings.Split(g, "\n")
					where = append(where, ls[0])
					for _, l := range ls {
						if strings.Contains(l, "channel.go:") {
							where = append(where, "   "+strings.TrimSpace(l))
						}
					}
				}
			}
			t.Logf("call %d to a node whose server is reachable did not return within 1.5 s; sender and receiver:\n%s", i, strings.Join(where, "\n"))
			return true
		}
	}
	return false
}

func TestFindingD9(t *testing.T) {
	for a := 0; a < 40; a++ {
		if findingD9Attempt(t) {
			t.Fatalf("FINDING-REPRODUCED D9: attempt %d wedged the node: the sender waits for streamMut.Lock() in reconnect while the receiver holds the read lock parked in RecvMsg", a)
		}
	}
	t.Log("D9 did not reproduce in 40 attempts")
}
