package config

// Witness for finding D22 (C14.e): the typed Manager.NewConfiguration returns an EMPTY configuration
// and no error when it is given a quorum specification but no node list, although its documentation
// calls the node list required and the property demands that an empty result be rejected.
// Run through an overlay by /verif/tools/finding_demo.sh D22; nothing is written to /repo.

import (
	"testing"

	"github.com/relab/gorums"
)

type findingD22QSpec struct{}

func (findingD22QSpec) ConfigQF(_ *Request, replies map[uint32]*Response) (*Response, bool) {
	return nil, false
}

func TestFindingD22(t *testing.T) {
	mgr := NewManager(gorums.WithNoConnect())
	defer mgr.Close()
	cfg, err := mgr.NewConfiguration(findingD22QSpec{})
	if err != nil {
		t.Logf("rejected as required: %v", err)
		return
	}
	if cfg == nil || cfg.Size() == 0 {
		t.Fatalf("NewConfiguration(qspec) without a node list: err == nil and the configuration is empty (size %d, nodes %v)", cfg.Size(), cfg.Nodes())
	}
}
